package main

import (
	"fmt"

	"verifmon/ref/dilref"
	"verifmon/rt"
)

// C05 "degenerate key" constructions. Under a public key whose t1 is all zero the verification equation
// does not involve the challenge polynomial, so for any response z and any hint vector h the reference can
// produce the one challenge c that makes (c, z, h) satisfy the specification's equations. Every
// verifier-side condition (norm bound at every coefficient position and both signs, every hint-encoding
// rule, the comparison of all 32 challenge bytes, UseHint at its corner cases) can then be presented in
// isolation, without a secret key and without waiting for a rare honest signature.

func c05Degenerate(j *rt.Job, rng *rt.Rand, r *rt.Rec) {
	rho := rng.Bytes(32)
	msg := rng.Bytes(rng.Intn(50))
	smallZ := func() (z [dilref.L][dilref.N]int64) {
		for i := range z {
			for n := range z[i] {
				z[i][n] = int64(rng.Intn(20001)) - 10000
			}
		}
		return
	}
	randH := func(weight int) (h [dilref.K][dilref.N]int64) {
		for placed := 0; placed < weight; {
			i, n := rng.Intn(dilref.K), rng.Intn(dilref.N)
			if h[i][n] == 0 {
				h[i][n] = 1
				placed++
			}
		}
		return
	}
	// present: forge for (z, h) with hint section hb, expect the given verdict from the specification
	present := func(class string, z *[dilref.L][dilref.N]int64, h *[dilref.K][dilref.N]int64, hb []byte, expectAccept bool) bool {
		pk, sig := dilref.ForgeDegenerate(rho, msg, z, h, hb)
		refAcc, why := dilref.Verify(pk, msg, sig)
		if refAcc != expectAccept {
			r.Inconclusive(fmt.Sprintf("degenerate-key construction %s: the reference says %v (%s), the construction expected %v", class, refAcc, why, expectAccept))
			return false
		}
		return c05Judge(r, class, pk, msg, sig, "ref", true)
	}

	z0 := smallZ()
	h0 := randH(30 + rng.Intn(40))
	hb0 := dilref.PackHint(&h0)
	if !present("deg-valid", &z0, &h0, hb0, true) {
		return
	}
	// every challenge byte matters: all 256 single-bit flips of c
	pk, base := dilref.ForgeDegenerate(rho, msg, &z0, &h0, hb0)
	for bit := 0; bit < 256; bit++ {
		if !c05Judge(r, "deg-challenge-bitflip", pk, msg, flipBit(base, bit), "reject", bit%16 == 0) {
			return
		}
	}
	r.Observe("exhaustive", "all 256 challenge bits under a degenerate key (the recomputed challenge does not depend on c)")
	// the norm bound at chosen positions of every polynomial, both signs
	for _, pos := range []int{0, 1, 127, 128, 250, 251, 252, 253, 254, 255, rng.Intn(256)} {
		for _, poly := range []int{0, 3, 6, rng.Intn(dilref.L)} {
			for _, sgn := range []int64{1, -1} {
				for _, c := range []struct {
					v      int64
					accept bool
					class  string
				}{{dilGamma1 - dilBeta - 1, true, "deg-z-at-bound-1(accept)"}, {dilGamma1 - dilBeta, false, "deg-z-at-bound(reject)"}, {dilGamma1 - 1, false, "deg-z-far(reject)"}} {
					z := z0
					z[poly][pos] = sgn * c.v
					if !present(c.class, &z, &h0, hb0, c.accept) {
						return
					}
				}
			}
		}
	}
	// hint weight exactly omega, reached before the last row: trailing counters must all be 75
	for t := 0; t < 6; t++ {
		var h [dilref.K][dilref.N]int64
		last := rng.Intn(7) // row that holds the 75th hint
		for placed := 0; placed < 75; {
			i, n := rng.Intn(last+1), rng.Intn(dilref.N)
			if h[i][n] == 0 {
				h[i][n] = 1
				placed++
			}
		}
		hb := dilref.PackHint(&h)
		if !present("deg-weight75-canonical", &z0, &h, hb, true) {
			return
		}
		for _, v := range []byte{0, 1, 74, 76, 255} {
			bad := append([]byte(nil), hb...)
			bad[75+last+1+rng.Intn(7-last)] = v
			if !present("deg-weight75-trailing-counter", &z0, &h, bad, false) {
				return
			}
		}
	}
	// non-canonical encodings of the same hint vector: swap, duplicate, padding, decreasing counts
	{
		cnt := func(hb []byte, row int) int { return int(hb[75+row]) }
		row := 0
		for row < 8 && (cnt(hb0, row)-map[bool]int{true: 0, false: cnt(hb0, maxInt(row-1, 0))}[row == 0]) < 2 {
			row++
		}
		if row < 8 {
			start := 0
			if row > 0 {
				start = cnt(hb0, row-1)
			}
			sw := append([]byte(nil), hb0...)
			sw[start], sw[start+1] = sw[start+1], sw[start]
			if !present("deg-hints-unordered", &z0, &h0, sw, false) {
				return
			}
			total := cnt(hb0, 7)
			if total < 75 {
				dup := append([]byte(nil), hb0...)
				copy(dup[start+1:75], hb0[start:74])
				for rr := row; rr < 8; rr++ {
					dup[75+rr]++
				}
				if !present("deg-hint-duplicated", &z0, &h0, dup, false) {
					return
				}
				pad := append([]byte(nil), hb0...)
				pad[total+rng.Intn(75-total)] = byte(1 + rng.Intn(255))
				if !present("deg-padding", &z0, &h0, pad, false) {
					return
				}
			}
		}
	}
	// UseHint corner cases: a hint placed on a coefficient of w' = A*z whose low part is 0, 1, -1, at the
	// tie gamma2, or whose high part wraps (r1 = 15 going up, r1 = 0 going down)
	found := map[string]bool{}
	for try := 0; try < 250 && len(found) < 6; try++ {
		z := smallZ()
		w := dilref.AZ(rho, &z)
		for i := 0; i < dilref.K && len(found) < 6; i++ {
			for n := 0; n < dilref.N; n++ {
				r1, r0 := dilref.Decompose(w[i][n])
				kind := ""
				switch {
				case r0 == 0:
					kind = "low-part-0"
				case r0 == dilGamma2:
					kind = "low-part-tie"
				case r0 == 1 && try%3 == 0:
					kind = "low-part-1"
				case r0 == -1 && try%3 == 0:
					kind = "low-part--1"
				case r1 == 15 && r0 > 0:
					kind = "wrap-up-from-15"
				case r1 == 0 && r0 <= 0:
					kind = "wrap-down-from-0"
				}
				if kind == "" || found[kind] {
					continue
				}
				found[kind] = true
				var h [dilref.K][dilref.N]int64
				h[i][n] = 1
				if !present("deg-usehint-"+kind, &z, &h, dilref.PackHint(&h), true) {
					return
				}
			}
		}
	}
	for k := range found {
		r.Observe("usehint_corners_presented", k)
	}
	r.Sample(map[string]interface{}{"degenerate_key_rho": rt.Hex(rho[:8]) + "..", "constructions": "valid, 256 challenge bits, norm bound at chosen positions and both signs, weight-75 counters, non-canonical hint encodings, UseHint corners"})
}

func maxInt(a, b int) int {
	if a > b {
		return a
	}
	return b
}

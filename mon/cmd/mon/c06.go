package main

import (
	"bytes"
	"fmt"

	"github.com/theQRL/go-qrllib/xmss"

	"verifmon/ref/xmssref"
	"verifmon/rt"
)

// C06 — XMSS keys and signatures are byte-identical to the full-tree reference.

func init() {
	monitors["C06"] = &Monitor{Plan: c06Plan, Run: c06Run, Replay: c06Replay}
}

func c06Plan(tier string, seed uint64) (jobs []rt.Job) {
	rng := rt.NewRand(seed, "C06/plan")
	add := func(h, hf int, s [48]byte, mode string, n int, cost float64) {
		c := XCfg{H: h, HF: hf, Seed: rt.Hex(s[:])}
		a := c.args()
		a["mode"] = mode
		a["n"] = n
		jobs = append(jobs, rt.Job{ID: fmt.Sprintf("C06/%s/%s", c, mode), Kind: "c06", Cost: cost, Args: a})
	}
	// the same seed under several (height, hash) configurations inside ONE process, in different orders
	nm := 3
	if tier == "thorough" {
		nm = 12
	}
	for b := 0; b < nm; b++ {
		s := rng.Seed48()
		jobs = append(jobs, rt.Job{ID: fmt.Sprintf("C06/multiconfig/%d", b), Kind: "multiconfig", Cost: 4, Args: map[string]interface{}{"seed": rt.Hex(s[:]), "order": b}})
	}
	// tall trees under the leaf seam: index / randomiser / WOTS part of signatures at large indices
	// (real chains, real OTS addresses) against the reference, authentication path against the seam tree
	for hf := 0; hf < 3; hf++ {
		sd := rng.Seed48()
		jobs = append(jobs, rt.Job{ID: fmt.Sprintf("C06/msglen/%s", hashNames[hf]), Kind: "msglen", Cost: 8, Args: map[string]interface{}{"hf": hf, "seed": rt.Hex(sd[:]), "max": map[bool]int{true: 700, false: 3000}[tier == "quick"]}})
	}
	th := []int{12, 16, 18}
	if tier == "thorough" {
		th = []int{12, 14, 16, 18, 20, 22}
	}
	for _, h := range th {
		for hf := 0; hf < 3; hf++ {
			if h > 16 && hf != h/2%3 {
				continue
			}
			s := rng.Seed48()
			c := XCfg{H: h, HF: hf, Seed: rt.Hex(s[:]), Seam: true}
			a := c.args()
			if tier == "quick" && h >= 18 {
				a["upto"] = 70000 // quick: large indices just beyond 2^16, not the whole life
			}
			jobs = append(jobs, rt.Job{ID: fmt.Sprintf("C06/%s/seam-prefix", c), Kind: "seam-prefix", Cost: float64(uint(1)<<uint(h)) * 0.0001, Args: a})
		}
	}
	nseeds := 3
	if tier == "thorough" {
		nseeds = 4
	}
	for hf := 0; hf < 3; hf++ {
		for _, s := range seedsFor(rng, nseeds) {
			add(4, hf, s, "all", 0, 0.3)
			add(6, hf, s, "all", 0, 1)
		}
		if tier == "quick" {
			add(8, hf, rng.Seed48(), "mixed", 40, 3)
		} else {
			for _, s := range seedsFor(rng, 2) {
				add(8, hf, s, "all", 0, 6)
			}
			add(10, hf, rng.Seed48(), "all", 0, 25)
			add(10, hf, rng.Seed48(), "mixed", 200, 12)
			add(12, hf, rng.Seed48(), "mixed", 256, 60)
		}
	}
	return
}

// c06Multi: one process, one seed, several (height, hash) configurations one after the other.
func c06Multi(j *rt.Job, seed uint64, r *rt.Rec) {
	rng := rt.NewRand(seed, j.ID)
	cfgs := [][2]int{{4, 0}, {4, 1}, {4, 2}, {6, 0}, {6, 1}, {6, 2}, {4, 1}, {8, j.Int("order") % 3}}
	for a := len(cfgs) - 1; a > 0; a-- {
		b := rng.Intn(a + 1)
		cfgs[a], cfgs[b] = cfgs[b], cfgs[a]
	}
	// before any key exists the process verifies foreign signatures with assorted Winternitz parameters
	// (outcomes are not judged here; the point is the history)
	if j.Int("order")%3 != 2 {
		for _, w := range []uint32{4, 256, 17, 3, 64, 16} {
			var pk [67]byte
			copy(pk[:], rng.Bytes(67))
			pk[0], pk[1] = byte(rng.Intn(3)), byte(2+rng.Intn(3))
			for _, l := range []int{2180 + 32*4, wBase(4) + 32*4, wBase(256) + 32*6, 2180 + 32*8} {
				rt.Call(func() { xmss.VerifyWithCustomWOTSParamW([]byte("m"), rng.Bytes(l), pk, w) })
			}
		}
		r.Count("foreign_verifications_before_keygen", 1)
	}
	for step, hc := range cfgs {
		c := XCfg{H: hc[0], HF: hc[1], Seed: j.Str("seed")}
		lib := c.newLib()
		ref := c.newRef()
		pk := lib.GetPK()
		r.Eval(1)
		if !bytes.Equal(pk[:], ref.PK(c.desc())) {
			r.Violate("C06/pk/history", fmt.Sprintf("public key of %s differs from the reference when it is the %d-th configuration derived from this seed in one process", c, step+1), jobCase(j), "", "")
			return
		}
		for i := 0; i < 4; i++ {
			if i == 3 {
				lib.SetIndex(uint32(1<<uint(c.H)) - 2)
			}
			idx := lib.GetIndex()
			msg := msgFor(c, idx, "multi")
			sig, err := lib.Sign(msg)
			r.Eval(1)
			if err != nil || sigDiff(ref.Sign(idx, msg), sig) != "" {
				r.Violate("C06/sig/history", fmt.Sprintf("signature at index %d of %s differs from the reference when it is the %d-th configuration derived from this seed in one process", idx, c, step+1), jobCase(j), "", "")
				return
			}
			r.Count("signatures_equal", 1)
			r.Distinct("multi", c.Seed, c.H, c.HF, idx, step)
		}
		r.Observe("multiconfig_orders", fmt.Sprintf("job%d:%d=h%d/%s", j.Int("order"), step, c.H, hashNames[c.HF]))
	}
	r.Sample(map[string]interface{}{"multiconfig_seed": j.Str("seed")[:16] + "..", "configurations_in_one_process": len(cfgs)})
}

// c06SeamPrefix: signatures at large indices of tall trees under the leaf seam.
func c06SeamPrefix(j *rt.Job, seed uint64, r *rt.Rec) {
	c := cfgFromJob(j)
	rng := rt.NewRand(seed, j.ID)
	n := uint32(1) << uint(c.H)
	c.seam(func() {
		lib := c.newLib()
		ref := c.newRef()
		root := append([]byte(nil), lib.GetRoot()...)
		if !bytes.Equal(root, ref.Root) {
			r.Violate("C06/seam-root", "root under the leaf seam differs from the reference tree over the same leaves", jobCase(j), "", "")
			return
		}
		sd := c.seed()
		sec := xmssref.Expand(sd[:])
		set := map[uint32]bool{0: true, 1: true, 255: true, 256: true, 257: true, 4095: true, 4096: true, n - 1: true, n - 2: true, n/2 - 1: true, n / 2: true}
		if n > 65536 {
			set[65535], set[65536], set[65537] = true, true, true
		}
		limit := n
		if u := uint32(j.Int("upto")); u > 0 && u < n {
			limit = u
			set[66000], set[69999] = true, true
		}
		for len(set) < 40 {
			set[uint32(rng.Intn(int(limit)))] = true
		}
		var idxs []uint32
		for v := range set {
			if v < limit {
				idxs = append(idxs, v)
			}
		}
		sortU32(idxs)
		for _, idx := range idxs {
			if idx > lib.GetIndex() {
				lib.SetIndex(idx)
			}
			if lib.GetIndex() != idx {
				continue // already passed (consecutive indices are reached by the previous signature)
			}
			msg := msgFor(c, idx, "prefix")
			sig, err := lib.Sign(msg)
			r.Eval(1)
			if err != nil {
				r.Violate("C06/sign-error", "Sign returned an error: "+err.Error(), jobCase(j), "", "")
				return
			}
			exp := append(sec.SignPrefix(xmssref.Hash(c.HF), idx, msg, root), ref.Auth(idx)...)
			if d := sigDiff(exp, sig); d != "" {
				r.Violate("C06/sig/tall/"+d, fmt.Sprintf("signature at index %d of a tall tree (leaf seam, real WOTS part) differs from the reference in: %s (%s)", idx, d, c), jobCase(j), rt.Short(exp), rt.Short(sig))
				return
			}
			r.Count("signatures_equal", 1)
			r.Count("sig_bytes_compared", int64(len(exp)))
			r.Distinct("tall", c.H, c.HF, idx)
		}
		r.Observe("configs", fmt.Sprintf("h=%d/%s/seam-prefix", c.H, hashNames[c.HF]))
		r.Sample(map[string]interface{}{"cfg": c.String(), "seam": true, "indices": len(idxs), "largest": idxs[len(idxs)-1]})
	})
}

// c06MsgLen: every message length 0..max (and a nil message), signed by fresh height-4 keys at successive
// indices, against the reference.
func c06MsgLen(j *rt.Job, seed uint64, r *rt.Rec) {
	c := XCfg{H: 4, HF: j.Int("hf"), Seed: j.Str("seed")}
	ref := c.newRef()
	var lib *xmss.XMSS
	max := j.Int("max")
	for l := -1; l <= max; l++ {
		idx := uint32((l + 1) % 16)
		if idx == 0 {
			lib = c.newLib()
		}
		var msg []byte // l == -1: nil message
		if l >= 0 {
			buf := rt.NewRand(uint64(l), "msglen/"+c.Seed).Bytes(l + 24)
			msg = buf[: l : l+24] // spare capacity behind the message must stay untouched
			copy(buf[l:], "CANARY-CANARY-CANARY-CAN")
			defer func(b []byte, l int) {
				if string(b[l:l+24]) != "CANARY-CANARY-CANARY-CAN" {
					r.Violate("C06/caller-buffer", fmt.Sprintf("Sign wrote into the spare capacity behind a %d-byte message", l), jobCase(j), "", "")
				}
			}(buf, l)
		}
		sig, err := lib.Sign(msg)
		r.Eval(1)
		if err != nil || sigDiff(ref.Sign(idx, msg), sig) != "" {
			r.Violate("C06/sig/message-length", fmt.Sprintf("signature of a %d-byte message (nil=%v) at index %d differs from the reference (%s)", len(msg), msg == nil, idx, c), jobCase(j), "", "")
			return
		}
		r.Count("signatures_equal", 1)
		r.Distinct("msglen", c.HF, l)
	}
	r.Observe("exhaustive", fmt.Sprintf("%s: every message length 0..%d and nil", hashNames[c.HF], max))
	r.Sample(map[string]interface{}{"message_length_sweep": []int{0, max}, "hash": hashNames[c.HF], "nil_message": true})
}

func c06Run(j *rt.Job, seed uint64, r *rt.Rec) {
	if j.Kind == "msglen" {
		c06MsgLen(j, seed, r)
		return
	}
	if j.Kind == "seam-prefix" {
		c06SeamPrefix(j, seed, r)
		return
	}
	if j.Kind == "multiconfig" {
		c06Multi(j, seed, r)
		return
	}
	c := cfgFromJob(j)
	mode := j.Str("mode")
	rng := rt.NewRand(seed, j.ID)
	lib := c.newLib()
	ref := c.newRef()
	r.Observe("configs", fmt.Sprintf("h=%d/%s/%s", c.H, hashNames[c.HF], mode))

	// public key
	pk := lib.GetPK()
	want := ref.PK(c.desc())
	r.Eval(1)
	r.Count("pk_compared", 1)
	if !bytes.Equal(pk[:], want) || !bytes.Equal(lib.GetRoot(), ref.Root) || !bytes.Equal(lib.GetPKSeed(), ref.Pub) {
		r.Violate("C06/pk/"+hashNames[c.HF], fmt.Sprintf("public key differs from the full-tree reference (%s)", c),
			map[string]interface{}{"kind": "c06pk", "cfg": c}, rt.Hex(want), rt.Hex(pk[:]))
		return
	}
	// same inputs, second object: identical key
	pk2 := c.newLib().GetPK()
	if pk2 != pk {
		r.Violate("C06/pk-determinism", "two keys from the same (seed,h,hash) differ", map[string]interface{}{"kind": "c06pk", "cfg": c}, rt.Hex(pk[:]), rt.Hex(pk2[:]))
	}

	// the other constructor of the same key: descriptor || seed ("extended seed") must give the same function of (seed, h, hash)
	if c.H <= 10 {
		var ext [51]byte
		d, sd := c.desc(), c.seed()
		copy(ext[:3], d[:])
		copy(ext[3:], sd[:])
		var pke [67]byte
		var sge []byte
		msg := msgFor(c, 0, "ext")
		o := rt.Call(func() {
			ke := xmss.NewXMSSFromExtendedSeed(ext)
			pke = ke.GetPK()
			sge, _ = ke.Sign(msg)
		})
		r.Eval(1)
		r.Count("extended_seed_constructor_compared", 1)
		if o.Kind != "value" || pke != pk || sigDiff(ref.Sign(0, msg), sge) != "" {
			r.Violate("C06/pk/extended-seed-constructor", fmt.Sprintf("the key built by NewXMSSFromExtendedSeed(descriptor || seed) is not the reference key of (seed, h, hash): outcome %s %s, pk equal=%v, first signature: %s (%s)", o.Kind, o.Text, pke == pk, sigDiff(ref.Sign(0, msg), sge), c),
				map[string]interface{}{"kind": "c06pk", "cfg": c, "ext": true}, rt.Hex(pk[:]), rt.Hex(pke[:]))
			return
		}
	}

	n := uint32(1) << uint(c.H)
	check := func(k *xmss.XMSS, way string, path []uint32, salt string) bool {
		idx := k.GetIndex()
		msg := msgFor(c, idx, salt)
		sig, err := k.Sign(msg)
		r.Eval(1)
		if err != nil {
			r.Violate("C06/sign-error", "Sign returned an error: "+err.Error(), XCase{Kind: "c06sig", Cfg: c, Way: way, Path: path, Idx: idx, Msg: rt.Hex(msg), Salt: salt}, "", "")
			return false
		}
		exp := ref.Sign(idx, msg)
		r.Count("sig_bytes_compared", int64(len(exp)))
		if idx > 0 {
			r.Distinct(c.Seed, c.H, c.HF, idx, len(msg), salt)
		}
		if d := sigDiff(exp, sig); d != "" {
			r.Violate("C06/sig/"+d, fmt.Sprintf("signature at index %d differs from the reference in: %s (%s, reached by %s)", idx, d, c, way),
				XCase{Kind: "c06sig", Cfg: c, Way: way, Path: path, Idx: idx, Msg: rt.Hex(msg), Salt: salt}, rt.Short(exp), rt.Short(sig))
			return false
		}
		r.Count("signatures_equal", 1)
		r.Sample(map[string]interface{}{"cfg": c.String(), "index": idx, "msg_len": len(msg), "way": way, "sig_digest": rt.Digest(sig)})
		return true
	}

	switch mode {
	case "all":
		for i := uint32(0); i < n; i++ {
			if !check(lib, "sign", nil, "reach") {
				return
			}
		}
		r.Observe("exhaustive_index_configs", c.String())
		// two objects, same index: jump there on a fresh object and sign the same message
		for t := 0; t < 6; t++ {
			i := uint32(rng.Intn(int(n)))
			k := c.newLib()
			reach(c, k, i, "jump")
			if !check(k, "jump", nil, "reach") {
				return
			}
			r.Count("two_object_determinism", 1)
		}
		// long messages (beyond 64 KiB and 1 MiB) at a late index
		for _, l := range []int{65535, 65536, 65537, 100000, 1 << 20} {
			k := c.newLib()
			i := n - 1 - uint32(rng.Intn(3))
			k.SetIndex(i)
			msg := rt.NewRand(uint64(l), "longmsg/"+c.Seed).Bytes(l)
			sig, err := k.Sign(msg)
			r.Eval(1)
			if err != nil || sigDiff(ref.Sign(i, msg), sig) != "" {
				r.Violate("C06/sig/long-message", fmt.Sprintf("signature of a %d-byte message at index %d differs from the reference (%s)", l, i, c), jobCase(j), "", "")
				return
			}
			r.Count("long_message_signatures_equal", 1)
			r.Distinct("long", c.Seed, c.HF, l)
		}
	case "mixed":
		// a walk of jumps and signatures over the key's life
		var path []uint32
		steps := j.Int("n")
		for s := 0; s < steps && lib.GetIndex() < n; s++ {
			cur := lib.GetIndex()
			if rng.Intn(3) == 0 {
				room := n - 1 - cur
				if room > 0 {
					d := uint32(rng.Intn(int(room/uint32(steps-s)+2))) + 1
					if d > room {
						d = room
					}
					lib.SetIndex(cur + d)
					path = append(path, cur+d)
				}
			}
			if !check(lib, "path", append([]uint32(nil), path...), "mixed") {
				return
			}
			path = append(path, signMark)
		}
		// last leaf
		k := c.newLib()
		reach(c, k, n-1, "jump")
		check(k, "jump", nil, "reach")
	}
}

func c06Replay(cs map[string]interface{}) (bool, string) {
	var c XCase
	if err := rt.Decode(cs, &c); err != nil {
		return false, "bad case: " + err.Error()
	}
	ref := c.Cfg.newRef()
	if c.Kind == "c06pk" {
		if e, _ := cs["ext"].(bool); e {
			var ext [51]byte
			d, sd := c.Cfg.desc(), c.Cfg.seed()
			copy(ext[:3], d[:])
			copy(ext[3:], sd[:])
			var pke [67]byte
			o := rt.Call(func() { pke = xmss.NewXMSSFromExtendedSeed(ext).GetPK() })
			want := ref.PK(c.Cfg.desc())
			return o.Kind != "value" || !bytes.Equal(pke[:], want), fmt.Sprintf("outcome %s; NewXMSSFromExtendedSeed pk %s\nref pk %s", o.Kind, rt.Hex(pke[:]), rt.Hex(want))
		}
		pk := c.Cfg.newLib().GetPK()
		want := ref.PK(c.Cfg.desc())
		return !bytes.Equal(pk[:], want), fmt.Sprintf("lib pk %s\nref pk %s", rt.Hex(pk[:]), rt.Hex(want))
	}
	lib := reachCase(c)
	msg := rt.UnHex(c.Msg)
	sig, err := lib.Sign(msg)
	if err != nil {
		return true, "Sign error " + err.Error()
	}
	exp := ref.Sign(c.Idx, msg)
	d := sigDiff(exp, sig)
	return d != "", fmt.Sprintf("index %d: first differing field: %q\nlib %s\nref %s", c.Idx, d, rt.Short(sig), rt.Short(exp))
}

var _ = xmssref.N

package main

import (
	"bytes"
	"fmt"

	"github.com/theQRL/go-qrllib/xmss"

	"verifmon/ref/xmssref"
	"verifmon/rt"
)

// C06 — XMSS keys and signatures are byte-identical to the full-tree reference.

func init() {
	monitors["C06"] = &Monitor{Plan: c06Plan, Run: c06Run, Replay: c06Replay}
}

func c06Plan(tier string, seed uint64) (jobs []rt.Job) {
	rng := rt.NewRand(seed, "C06/plan")
	add := func(h, hf int, s [48]byte, mode string, n int, cost float64) {
		c := XCfg{H: h, HF: hf, Seed: rt.Hex(s[:])}
		a := c.args()
		a["mode"] = mode
		a["n"] = n
		jobs = append(jobs, rt.Job{ID: fmt.Sprintf("C06/%s/%s", c, mode), Kind: "c06", Cost: cost, Args: a})
	}
	nseeds := 3
	if tier == "thorough" {
		nseeds = 4
	}
	for hf := 0; hf < 3; hf++ {
		for _, s := range seedsFor(rng, nseeds) {
			add(4, hf, s, "all", 0, 0.3)
			add(6, hf, s, "all", 0, 1)
		}
		if tier == "quick" {
			add(8, hf, rng.Seed48(), "mixed", 40, 3)
		} else {
			for _, s := range seedsFor(rng, 2) {
				add(8, hf, s, "all", 0, 6)
			}
			add(10, hf, rng.Seed48(), "all", 0, 25)
			add(10, hf, rng.Seed48(), "mixed", 200, 12)
			add(12, hf, rng.Seed48(), "mixed", 256, 60)
		}
	}
	return
}

func c06Run(j *rt.Job, seed uint64, r *rt.Rec) {
	c := cfgFromJob(j)
	mode := j.Str("mode")
	rng := rt.NewRand(seed, j.ID)
	lib := c.newLib()
	ref := c.newRef()
	r.Observe("configs", fmt.Sprintf("h=%d/%s/%s", c.H, hashNames[c.HF], mode))

	// public key
	pk := lib.GetPK()
	want := ref.PK(c.desc())
	r.Eval(1)
	r.Count("pk_compared", 1)
	if !bytes.Equal(pk[:], want) || !bytes.Equal(lib.GetRoot(), ref.Root) || !bytes.Equal(lib.GetPKSeed(), ref.Pub) {
		r.Violate("C06/pk/"+hashNames[c.HF], fmt.Sprintf("public key differs from the full-tree reference (%s)", c),
			map[string]interface{}{"kind": "c06pk", "cfg": c}, rt.Hex(want), rt.Hex(pk[:]))
		return
	}
	// same inputs, second object: identical key
	pk2 := c.newLib().GetPK()
	if pk2 != pk {
		r.Violate("C06/pk-determinism", "two keys from the same (seed,h,hash) differ", map[string]interface{}{"kind": "c06pk", "cfg": c}, rt.Hex(pk[:]), rt.Hex(pk2[:]))
	}

	n := uint32(1) << uint(c.H)
	check := func(k *xmss.XMSS, way string, path []uint32, salt string) bool {
		idx := k.GetIndex()
		msg := msgFor(c, idx, salt)
		sig, err := k.Sign(msg)
		r.Eval(1)
		if err != nil {
			r.Violate("C06/sign-error", "Sign returned an error: "+err.Error(), XCase{Kind: "c06sig", Cfg: c, Way: way, Path: path, Idx: idx, Msg: rt.Hex(msg), Salt: salt}, "", "")
			return false
		}
		exp := ref.Sign(idx, msg)
		r.Count("sig_bytes_compared", int64(len(exp)))
		if idx > 0 {
			r.Distinct(c.Seed, c.H, c.HF, idx, len(msg), salt)
		}
		if d := sigDiff(exp, sig); d != "" {
			r.Violate("C06/sig/"+d, fmt.Sprintf("signature at index %d differs from the reference in: %s (%s, reached by %s)", idx, d, c, way),
				XCase{Kind: "c06sig", Cfg: c, Way: way, Path: path, Idx: idx, Msg: rt.Hex(msg), Salt: salt}, rt.Short(exp), rt.Short(sig))
			return false
		}
		r.Count("signatures_equal", 1)
		r.Sample(map[string]interface{}{"cfg": c.String(), "index": idx, "msg_len": len(msg), "way": way, "sig_digest": rt.Digest(sig)})
		return true
	}

	switch mode {
	case "all":
		for i := uint32(0); i < n; i++ {
			if !check(lib, "sign", nil, "reach") {
				return
			}
		}
		r.Observe("exhaustive_index_configs", c.String())
		// two objects, same index: jump there on a fresh object and sign the same message
		for t := 0; t < 6; t++ {
			i := uint32(rng.Intn(int(n)))
			k := c.newLib()
			reach(c, k, i, "jump")
			if !check(k, "jump", nil, "reach") {
				return
			}
			r.Count("two_object_determinism", 1)
		}
	case "mixed":
		// a walk of jumps and signatures over the key's life
		var path []uint32
		steps := j.Int("n")
		for s := 0; s < steps && lib.GetIndex() < n; s++ {
			cur := lib.GetIndex()
			if rng.Intn(3) == 0 {
				room := n - 1 - cur
				if room > 0 {
					d := uint32(rng.Intn(int(room/uint32(steps-s)+2))) + 1
					if d > room {
						d = room
					}
					lib.SetIndex(cur + d)
					path = append(path, cur+d)
				}
			}
			if !check(lib, "path", append([]uint32(nil), path...), "mixed") {
				return
			}
			path = append(path, signMark)
		}
		// last leaf
		k := c.newLib()
		reach(c, k, n-1, "jump")
		check(k, "jump", nil, "reach")
	}
}

func c06Replay(cs map[string]interface{}) (bool, string) {
	var c XCase
	if err := rt.Decode(cs, &c); err != nil {
		return false, "bad case: " + err.Error()
	}
	ref := c.Cfg.newRef()
	if c.Kind == "c06pk" {
		pk := c.Cfg.newLib().GetPK()
		want := ref.PK(c.Cfg.desc())
		return !bytes.Equal(pk[:], want), fmt.Sprintf("lib pk %s\nref pk %s", rt.Hex(pk[:]), rt.Hex(want))
	}
	lib := reachCase(c)
	msg := rt.UnHex(c.Msg)
	sig, err := lib.Sign(msg)
	if err != nil {
		return true, "Sign error " + err.Error()
	}
	exp := ref.Sign(c.Idx, msg)
	d := sigDiff(exp, sig)
	return d != "", fmt.Sprintf("index %d: first differing field: %q\nlib %s\nref %s", c.Idx, d, rt.Short(sig), rt.Short(exp))
}

var _ = xmssref.N

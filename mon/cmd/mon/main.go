// mon: the monitor binary. One sub-command per property; each property offers
// plan (list jobs for a tier/seed), run (execute one job, write a result file)
// and replay (re-execute one recorded violating case).
package main

import (
	"encoding/json"
	"fmt"
	"os"
	"runtime/debug"
	"sort"
	"strconv"
	"strings"

	"verifmon/rt"
)

type Monitor struct {
	Plan   func(tier string, seed uint64) []rt.Job
	Run    func(j *rt.Job, seed uint64, r *rt.Rec)
	Replay func(c map[string]interface{}) (violated bool, detail string)
}

var monitors = map[string]*Monitor{}

// guardedRun executes a job; a panic that escapes the monitor is a violation when
// it was raised inside the library (the monitors wrap every call where a refusal
// is a legitimate outcome), otherwise a harness problem (inconclusive).
func guardedRun(m *Monitor, j *rt.Job, seed uint64, rec *rt.Rec) {
	defer func() {
		if v := recover(); v != nil {
			st := string(debug.Stack())
			msg := fmt.Sprint(v)
			if strings.Contains(st, "github.com/theQRL/go-qrllib/") {
				fn := "?"
				for _, l := range strings.Split(st, "\n") {
					if strings.HasPrefix(l, "github.com/theQRL/go-qrllib/") {
						fn = l
						if i := strings.LastIndex(fn, "("); i > 0 {
							fn = fn[:i]
						}
						break
					}
				}
				rec.Violate(os.Args[1]+"/unexpected-panic/"+fn, "library call ended in an unexpected panic: "+msg+" in "+fn,
					jobCase(j), "no panic", msg)
			} else {
				rec.Inconclusive("monitor panicked outside the library: " + msg + "\n" + st)
			}
		}
	}()
	m.Run(j, seed, rec)
}

// jobCase is the replay case "re-run this whole job with the same seed".
func jobCase(j *rt.Job) map[string]interface{} {
	return map[string]interface{}{"kind": "job", "job": j, "seed": j.Args["_seed"]}
}

// replayJob re-runs a whole job and reports whether it still yields a violation.
func replayJob(m *Monitor, c map[string]interface{}) (bool, string) {
	var j rt.Job
	if err := rt.Decode(c["job"], &j); err != nil {
		return false, "bad job in case: " + err.Error()
	}
	seed := uint64(1)
	if f, ok := c["seed"].(float64); ok {
		seed = uint64(f)
	}
	rec := rt.NewRec(j.ID)
	guardedRun(m, &j, seed, rec)
	res := rec.Finish()
	d := fmt.Sprintf("job %s re-run: %d violation(s)", j.ID, len(res.Violations))
	for _, v := range res.Violations {
		d += "\n  " + v.Key + ": " + v.What
	}
	return len(res.Violations) > 0, d
}

func usage() {
	fmt.Fprintln(os.Stderr, "usage: mon selftest | mon <ID> plan <tier> <seed> | mon <ID> run <jobfile> <outfile> <seed> | mon <ID> replay <file>")
	os.Exit(2)
}

func main() {
	if len(os.Args) < 2 {
		usage()
	}
	if os.Args[1] == "selftest" {
		if err := selfTest(); err != nil {
			fmt.Println("SELFTEST FAILED:", err)
			os.Exit(2)
		}
		fmt.Println("selftest ok")
		return
	}
	if os.Args[1] == "list" {
		var ids []string
		for id := range monitors {
			ids = append(ids, id)
		}
		sort.Strings(ids)
		fmt.Println(ids)
		return
	}
	m := monitors[os.Args[1]]
	if m == nil || len(os.Args) < 3 {
		usage()
	}
	switch os.Args[2] {
	case "plan":
		if len(os.Args) < 5 {
			usage()
		}
		seed, _ := strconv.ParseUint(os.Args[4], 10, 64)
		jobs := m.Plan(os.Args[3], seed)
		jobs = append(jobs, arch386Jobs(os.Args[1], jobs)...)
		for i := range jobs {
			if jobs[i].Args == nil {
				jobs[i].Args = map[string]interface{}{}
			}
			jobs[i].Args["tier"] = os.Args[3]
		}
		b, _ := json.Marshal(jobs)
		os.Stdout.Write(append(b, '\n'))
	case "run":
		if len(os.Args) < 6 {
			usage()
		}
		raw, err := os.ReadFile(os.Args[3])
		if err != nil {
			fmt.Fprintln(os.Stderr, err)
			os.Exit(2)
		}
		var j rt.Job
		if err := json.Unmarshal(raw, &j); err != nil {
			fmt.Fprintln(os.Stderr, err)
			os.Exit(2)
		}
		seed, _ := strconv.ParseUint(os.Args[5], 10, 64)
		rec := rt.NewRec(j.ID)
		if j.Args == nil {
			j.Args = map[string]interface{}{}
		}
		j.Args["_seed"] = float64(seed)
		guardedRun(m, &j, seed, rec)
		if err := rec.Write(os.Args[4]); err != nil {
			fmt.Fprintln(os.Stderr, err)
			os.Exit(2)
		}
	case "replay":
		if len(os.Args) < 4 {
			usage()
		}
		raw, err := os.ReadFile(os.Args[3])
		if err != nil {
			fmt.Fprintln(os.Stderr, err)
			os.Exit(2)
		}
		var f struct {
			Case map[string]interface{} `json:"case"`
		}
		if err := json.Unmarshal(raw, &f); err != nil || f.Case == nil {
			fmt.Fprintln(os.Stderr, "replay file has no case object", err)
			os.Exit(2)
		}
		var v bool
		var d string
		if k, _ := f.Case["kind"].(string); k == "job" {
			v, d = replayJob(m, f.Case)
		} else if m.Replay == nil {
			fmt.Println("replay not supported for this case kind")
			os.Exit(2)
		} else {
			v, d = m.Replay(f.Case)
		}
		fmt.Println(d)
		if v {
			fmt.Println("REPRODUCED")
			os.Exit(1)
		}
		fmt.Println("NOT-REPRODUCED")
	default:
		usage()
	}
}

// arch386Jobs: a subset of a property's jobs is run a second time with the monitor built for GOARCH=386,
// where int is 32 bits wide (as it is under GopherJS, which the qrllib-js wrappers are generated with).
// The results must be the same: nothing in the library may depend on the platform's integer width.
func arch386Jobs(id string, jobs []rt.Job) (out []rt.Job) {
	perKind := map[string]int{}
	limit := map[string]int{"C12": 99, "C13": 99, "C11": 99, "C10": 4, "C07": 2, "C03": 3, "C05": 2, "C01": 3, "C06": 2, "C04": 2, "C14": 1, "C16": 2, "C09": 1, "C02": 3, "C08": 2}[id]
	if limit == 0 {
		return nil
	}
	for _, j := range jobs {
		if j.Race || j.Args["gomaxprocs"] != nil {
			continue
		}
		if h, ok := j.Args["h"]; ok { // XMSS jobs: small real trees only
			if hi, _ := h.(int); hi > 4 {
				continue
			}
			if seam, _ := j.Args["seam"].(bool); seam {
				continue
			}
		}
		if j.Kind == "block24" || j.Kind == "r1search" {
			continue
		}
		if perKind[j.Kind] >= limit {
			continue
		}
		perKind[j.Kind]++
		c := j
		c.ID = j.ID + "/386"
		c.Args = map[string]interface{}{}
		for k, v := range j.Args {
			c.Args[k] = v
		}
		c.Args["arch"] = "386"
		c.Cost = j.Cost * 2
		out = append(out, c)
	}
	return
}

package main

import (
	"bytes"
	crand "crypto/rand"
	"fmt"
	"strings"

	"github.com/theQRL/go-qrllib/common"
	"github.com/theQRL/go-qrllib/dilithium"
	"github.com/theQRL/go-qrllib/misc"
	"github.com/theQRL/go-qrllib/xmss"

	"verifmon/rt"
)

// C09 — a wallet is recoverable from every secret it exports.

func init() {
	monitors["C09"] = &Monitor{Plan: c09Plan, Run: c09Run, Replay: c09Replay}
}

func c09Plan(tier string, seed uint64) (jobs []rt.Job) {
	rng := rt.NewRand(seed, "C09/plan")
	q := tier == "quick"
	add := func(kind string, cost float64, a map[string]interface{}) {
		jobs = append(jobs, rt.Job{ID: fmt.Sprintf("C09/%s/%d", kind, len(jobs)), Kind: kind, Cost: cost, Args: a})
	}
	hs := []int{4, 6, 8}
	if !q {
		hs = []int{4, 6, 8, 10}
	}
	for hf := 0; hf < 3; hf++ {
		for _, h := range hs {
			ns := 3
			if h >= 8 {
				ns = 1
			}
			for _, s := range seedsFor(rng, ns) {
				c := XCfg{H: h, HF: hf, Seed: rt.Hex(s[:])}
				a := c.args()
				add("xmss", float64(uint(1)<<uint(h))*0.02, a)
			}
			a := map[string]interface{}{"h": h, "hf": hf}
			add("xmss-fresh", float64(uint(1)<<uint(h))*0.02, a)
		}
		// under the seam: every supported height
		maxH := 18
		if !q {
			maxH = 24
		}
		for h := 4; h <= maxH; h += 2 {
			if h >= 22 && hf != 0 {
				continue
			}
			s := rng.Seed48()
			c := XCfg{H: h, HF: hf, Seed: rt.Hex(s[:]), Seam: true}
			add("xmss", float64(uint(1)<<uint(h))*0.00001+0.2, c.args())
		}
	}
	add("xmss-descriptor-only", 0.5, map[string]interface{}{})
	// several wallets alive at once: export everything first, recover afterwards, in another order
	nw := 2
	if !q {
		nw = 12
	}
	for b := 0; b < nw; b++ {
		add("wallets", 6, map[string]interface{}{"n": 8})
	}
	nd := 4
	if !q {
		nd = 48
	}
	for b := 0; b < nd; b++ {
		add("dilithium", 1, map[string]interface{}{"n": 60})
	}
	return
}

type c09Case struct {
	Kind  string `json:"kind"`
	Cfg   XCfg   `json:"cfg,omitempty"`
	Seed  string `json:"seed,omitempty"`
	Route string `json:"route"`
}

type xIdent struct {
	pk      [67]byte
	addr    [20]byte
	height  uint8
	ext     [51]byte
	mnem    string
	hexseed string
	sigs    [][]byte
}

func xIdentity(c XCfg, k *xmss.XMSS, nsig int) (id xIdent) {
	id.pk, id.addr, id.height, id.ext, id.mnem, id.hexseed = k.GetPK(), k.GetAddress(), k.GetHeight(), k.GetExtendedSeed(), k.GetMnemonic(), k.GetHexSeed()
	for i := 0; i < nsig; i++ {
		s, err := k.Sign(msgFor(c, uint32(i), "c09"))
		if err != nil {
			s = []byte("error: " + err.Error())
		}
		id.sigs = append(id.sigs, s)
	}
	return
}

func (a xIdent) diff(b xIdent) string {
	switch {
	case a.pk != b.pk:
		return "public key"
	case a.addr != b.addr:
		return "address"
	case a.height != b.height:
		return "height"
	case a.ext != b.ext:
		return "extended seed"
	case a.mnem != b.mnem:
		return "mnemonic"
	case a.hexseed != b.hexseed:
		return "hex seed"
	}
	for i := range a.sigs {
		if !bytes.Equal(a.sigs[i], b.sigs[i]) {
			return fmt.Sprintf("signature %d (%s)", i, sigDiff(a.sigs[i], b.sigs[i]))
		}
	}
	return ""
}

// c09XMSS compares a key with its reconstructions through the extended seed and the mnemonic.
func c09XMSS(r *rt.Rec, c XCfg, orig *xmss.XMSS, label string) bool {
	nsig := 3
	want := xIdentity(c, orig, nsig)
	if int(want.height) != c.H || want.pk[0]&0x0F != byte(c.HF) || int(want.pk[1]&0x0F)*2 != c.H {
		r.Violate("C09/descriptor", fmt.Sprintf("key reports height %d / descriptor %02x %02x for requested h=%d hash=%d", want.height, want.pk[0], want.pk[1], c.H, c.HF), c09Case{"c09x", c, "", label}, "", "")
		return false
	}
	routes := map[string]func() *xmss.XMSS{
		"extended-seed": func() *xmss.XMSS { return xmss.NewXMSSFromExtendedSeed(want.ext) },
		"mnemonic":      func() *xmss.XMSS { return xmss.NewXMSSFromExtendedSeed(misc.MnemonicToExtendedSeedBin(want.mnem)) },
		"seed": func() *xmss.XMSS {
			return xmss.NewXMSSFromSeed(orig.GetSeed(), orig.GetHeight(), xmss.HashFunction(c.HF), common.SHA256_2X)
		},
	}
	for _, name := range []string{"extended-seed", "mnemonic", "seed"} {
		r.Eval(1)
		var got xIdent
		out := rt.Call(func() { got = xIdentity(c, routes[name](), nsig) })
		cs := c09Case{"c09x", c, rt.Hex(want.ext[3:]), label + "/" + name}
		if out.Kind != rt.Value {
			r.Violate("C09/xmss/"+name, fmt.Sprintf("recovery through the %s failed: %s (%s)", name, out, c), cs, "", out.String())
			return false
		}
		if d := want.diff(got); d != "" {
			r.Violate("C09/xmss/"+name, fmt.Sprintf("key recovered through the %s differs from the original in its %s (%s, seam=%v)", name, d, c, c.Seam), cs, "", "")
			return false
		}
		r.Count("xmss_recoveries_equal_"+name, 1)
		r.Distinct("xmss", c.H, c.HF, c.Seed, c.Seam, name, label)
	}
	r.Observe("xmss_configs", fmt.Sprintf("h=%02d/%s/seam=%v", c.H, hashNames[c.HF], c.Seam))
	return true
}

// c09Continue: the recovered wallet is put at a saved index and used to the end of the tree; every signature must
// be the one the original object (which signed its way there) produces. Small trees only (all 2^h signatures).
func c09Continue(r *rt.Rec, c XCfg, orig *xmss.XMSS, label string, rng *rt.Rand) bool {
	if c.H > 8 {
		return true
	}
	n := uint32(1) << uint(c.H)
	ext, mnem := orig.GetExtendedSeed(), orig.GetMnemonic()
	first := orig.GetIndex()
	origSigs := map[uint32][]byte{}
	for i := first; i < n; i++ {
		sg, err := orig.Sign(msgFor(c, i, "c09"))
		if err != nil {
			sg = []byte("error: " + err.Error())
		}
		origSigs[i] = sg
	}
	for ri, name := range []string{"extended-seed", "mnemonic"} {
		// saved indices: one in each quarter of what is left, seeded
		for q := uint32(0); q < 4; q++ {
			span := (n - first) / 4
			if span == 0 {
				span = 1
			}
			t := first + q*span + uint32(rng.Intn(int(span)))
			if t >= n {
				continue
			}
			r.Eval(1)
			cs := c09Case{"c09x", c, rt.Hex(ext[3:]), fmt.Sprintf("%s/%s/continue-from-%d", label, name, t)}
			bad := ""
			out := rt.Call(func() {
				var k *xmss.XMSS
				if ri == 0 {
					k = xmss.NewXMSSFromExtendedSeed(ext)
				} else {
					k = xmss.NewXMSSFromExtendedSeed(misc.MnemonicToExtendedSeedBin(mnem))
				}
				if t > 0 {
					k.SetIndex(t)
				}
				for i := t; i < n && bad == ""; i++ {
					sg, err := k.Sign(msgFor(c, i, "c09"))
					if err != nil {
						sg = []byte("error: " + err.Error())
					}
					if !bytes.Equal(sg, origSigs[i]) {
						bad = fmt.Sprintf("signature at index %d (%s)", i, sigDiff(origSigs[i], sg))
					}
				}
			})
			if out.Kind != rt.Value {
				r.Violate("C09/xmss-continue/"+name, fmt.Sprintf("wallet recovered through the %s and put at saved index %d failed: %s (%s)", name, t, out, c), cs, "", out.String())
				return false
			}
			if bad != "" {
				r.Violate("C09/xmss-continue/"+name, fmt.Sprintf("wallet recovered through the %s and put at saved index %d does not continue like the original: %s (%s, seam=%v)", name, t, bad, c, c.Seam), cs, "", "")
				return false
			}
			r.Count("xmss_recovered_lives_equal", 1)
			r.Distinct("xmss-continue", c.H, c.HF, c.Seed, c.Seam, name, t)
		}
	}
	return true
}

func c09Run(j *rt.Job, seed uint64, r *rt.Rec) {
	rng := rt.NewRand(seed, j.ID)
	switch j.Kind {
	case "xmss":
		c := cfgFromJob(j)
		c.seam(func() {
			k := c.newLib()
			if c09XMSS(r, c, k, "from-seed") && c09Continue(r, c, k, "from-seed", rng) {
				r.Sample(map[string]interface{}{"cfg": c.String(), "seam": c.Seam, "routes": []string{"extended-seed", "mnemonic", "seed"}, "signatures_compared": 3})
			}
		})
	case "xmss-fresh":
		h, hf := j.Int("h"), j.Int("hf")
		k := xmss.NewXMSSFromHeight(uint8(h), xmss.HashFunction(hf))
		s := k.GetSeed()
		c := XCfg{H: h, HF: hf, Seed: rt.Hex(s[:])}
		k2 := xmss.NewXMSSFromHeight(uint8(h), xmss.HashFunction(hf))
		if k2.GetSeed() == s {
			r.Observe("info", "two fresh keys had the same seed (recorded, not judged)")
		}
		if c09XMSS(r, c, k, "fresh-randomness") && c09Continue(r, c, k, "fresh-randomness", rng) {
			r.Count("fresh_xmss_keys", 1)
			r.Sample(map[string]interface{}{"cfg": c.String(), "fresh": true})
		}
	case "wallets":
		c09Wallets(j, rng, r)
	case "xmss-descriptor-only":
		// heights a key object cannot be built for in reasonable time: the descriptor functions alone
		for _, h := range []int{26, 28, 30} {
			for hf := 0; hf < 3; hf++ {
				r.Eval(1)
				d := xmss.NewQRLDescriptor(uint8(h), xmss.HashFunction(hf), common.XMSSSig, common.SHA256_2X)
				b := d.GetBytes()
				var es [51]byte
				copy(es[:3], b[:])
				d2 := xmss.NewQRLDescriptorFromExtendedSeed(es)
				if int(d2.GetHeight()) != h || int(d2.GetHashFunction()) != hf || d2.GetBytes() != b {
					r.Violate("C09/descriptor", fmt.Sprintf("descriptor of h=%d hash=%d does not survive the extended seed", h, hf), jobCase(j), "", "")
					return
				}
				ph := misc.ExtendedSeedBinToMnemonic(es)
				if misc.MnemonicToExtendedSeedBin(ph) != es {
					r.Violate("C09/descriptor", "extended seed does not survive the mnemonic", jobCase(j), "", "")
					return
				}
				r.Distinct("desc-only", h, hf)
			}
		}
		r.Sample(map[string]interface{}{"descriptor_only_heights": []int{26, 28, 30}})
	case "dilithium":
		for t := 0; t < j.Int("n"); t++ {
			var d *dilithium.Dilithium
			label := "from-seed"
			if t%6 == 5 {
				nd, err := dilithium.New()
				if err != nil {
					// the operating system's randomness works (the monitor reads it itself): a wallet that cannot be created
					var probe [48]byte
					if _, perr := crand.Read(probe[:]); perr != nil {
						r.Inconclusive("no system randomness: " + perr.Error())
						return
					}
					r.Eval(1)
					r.Violate("C09/dilithium/fresh-key-not-created", "dilithium.New() returns an error although system randomness is available: "+err.Error(), jobCase(j), "a key from fresh randomness", err.Error())
					return
				}
				d, label = nd, "fresh-randomness"
			} else {
				s := rng.Seed48()
				if t < 3 {
					s = fixedSeeds()[t]
				}
				d = dilLibKey(s)
			}
			if !c09Dil(r, rng, d, label) {
				return
			}
		}
		r.Sample(map[string]interface{}{"dilithium_keys": j.Int("n"), "routes": []string{"seed", "hexseed", "mnemonic"}})
	}
}

func c09Dil(r *rt.Rec, rng *rt.Rand, d *dilithium.Dilithium, label string) bool {
	seed := d.GetSeed()
	pk, sk, addr := d.GetPK(), d.GetSK(), d.GetAddress()
	msgs := [][]byte{rng.Bytes(rng.Intn(64)), {}}
	var sigs [][4595]byte
	for _, m := range msgs {
		s, _ := d.Sign(m)
		sigs = append(sigs, s)
	}
	hexSeed := d.GetHexSeed()
	routes := map[string]func() (*dilithium.Dilithium, error){
		"seed":     func() (*dilithium.Dilithium, error) { return dilithium.NewDilithiumFromSeed(seed) },
		"hexseed":  func() (*dilithium.Dilithium, error) { return dilithium.NewDilithiumFromHexSeed(hexSeed[2:]) },
		"mnemonic": func() (*dilithium.Dilithium, error) { return dilithium.NewDilithiumFromMnemonic(d.GetMnemonic()) },
	}
	for _, name := range []string{"seed", "hexseed", "mnemonic"} {
		r.Eval(1)
		cs := c09Case{"c09d", XCfg{}, rt.Hex(seed[:]), label + "/" + name}
		var d2 *dilithium.Dilithium
		var err error
		out := rt.Call(func() { d2, err = routes[name]() })
		if out.Kind != rt.Value || err != nil || d2 == nil {
			r.Violate("C09/dilithium/"+name, fmt.Sprintf("recovery through the %s failed: %s %v", name, out, err), cs, "", "")
			return false
		}
		what := ""
		switch {
		case d2.GetPK() != pk:
			what = "public key"
		case d2.GetSK() != sk:
			what = "secret key"
		case d2.GetAddress() != addr:
			what = "address"
		case d2.GetSeed() != seed || d2.GetHexSeed() != hexSeed || d2.GetMnemonic() != d.GetMnemonic():
			what = "exported seed / hex seed / mnemonic"
		}
		for i, m := range msgs {
			if s, _ := d2.Sign(m); what == "" && s != sigs[i] {
				what = "signature"
			}
		}
		if what != "" {
			r.Violate("C09/dilithium/"+name, fmt.Sprintf("Dilithium key recovered through the %s differs in its %s (%s)", name, what, label), cs, "", "")
			return false
		}
		r.Count("dilithium_recoveries_equal_"+name, 1)
		r.Distinct("dil", rt.Hex(seed[:8]), name)
	}
	if hexSeed[:2] != "0x" || len(hexSeed) != 98 {
		r.Violate("C09/dilithium/hexseed-format", "GetHexSeed is not 0x + 96 hex digits", c09Case{"c09d", XCfg{}, rt.Hex(seed[:]), label}, "", "")
		return false
	}
	r.Count("dilithium_keys_"+label, 1)
	return true
}

func c09Replay(cs map[string]interface{}) (bool, string) {
	var c c09Case
	if err := rt.Decode(cs, &c); err != nil {
		return false, err.Error()
	}
	rec := rt.NewRec("replay")
	switch c.Kind {
	case "c09x":
		cfg := c.Cfg
		if c.Seed != "" {
			cfg.Seed = c.Seed
		}
		cfg.seam(func() {
			k := cfg.newLib()
			if c09XMSS(rec, cfg, k, "replay") {
				for t := uint64(1); t <= 4; t++ { // the saved indices are seeded: several draws
					c09Continue(rec, cfg, k, "replay", rt.NewRand(t, "replay"))
					k = cfg.newLib()
					k.Sign(msgFor(cfg, 0, "c09"))
				}
			}
		})
	case "c09d":
		var s [48]byte
		copy(s[:], rt.UnHex(c.Seed))
		c09Dil(rec, rt.NewRand(1, "replay"), dilLibKey(s), "replay")
	}
	res := rec.Finish()
	if len(res.Violations) > 0 {
		return true, res.Violations[0].What
	}
	return false, "recovered keys equal the original"
}

// c09Wallets: a session with several wallets. Phase 1 creates them all and exports every
// secret (the strings and arrays are kept); phase 2 recovers each wallet from the exports
// made in phase 1, in a shuffled order, and compares it with the identity recorded then.
func c09Wallets(j *rt.Job, rng *rt.Rand, r *rt.Rec) {
	type xw struct {
		c    XCfg
		id   xIdent
		seed [48]byte
	}
	type dw struct {
		seed          [48]byte
		pk            [2592]byte
		addr          [20]byte
		mnem, hexseed string
		sig           [4595]byte
	}
	var xs []xw
	var ds []dw
	if j.Int("_seed")%2 == 0 || rng.Bool() {
		c09Foreign(rng, r, "")
	}
	shared := rng.Seed48() // one seed used under several hash functions and heights
	n := j.Int("n")
	for i := 0; i < n; i++ {
		s := rng.Seed48()
		if i%2 == 0 {
			s = shared
		}
		c := XCfg{H: []int{4, 4, 6, 4}[i%4], HF: i % 3, Seed: rt.Hex(s[:])}
		k := c.newLib()
		xs = append(xs, xw{c, xIdentity(c, k, 2), s})
		d := dilLibKey(rng.Seed48())
		sg, _ := d.Sign([]byte("wallet"))
		ds = append(ds, dw{d.GetSeed(), d.GetPK(), d.GetAddress(), d.GetMnemonic(), d.GetHexSeed(), sg})
	}
	// between export and recovery the process handles foreign material: descriptors of every kind pass through
	// the validators and derivation functions, and a few mistyped phrases are refused by the decoders
	c09Foreign(rng, r, xs[0].id.mnem)
	// phase 2
	order := make([]int, n)
	for i := range order {
		order[i] = i
	}
	for a := n - 1; a > 0; a-- {
		b := rng.Intn(a + 1)
		order[a], order[b] = order[b], order[a]
	}
	for _, i := range order {
		w := xs[i]
		for _, route := range []string{"mnemonic", "extended-seed", "hexseed"} {
			r.Eval(1)
			var got xIdent
			out := rt.Call(func() {
				var k *xmss.XMSS
				switch route {
				case "mnemonic":
					k = xmss.NewXMSSFromExtendedSeed(misc.MnemonicToExtendedSeedBin(w.id.mnem))
				case "extended-seed":
					k = xmss.NewXMSSFromExtendedSeed(w.id.ext)
				default:
					var e [51]byte
					copy(e[:], rt.UnHex(w.id.hexseed[2:]))
					k = xmss.NewXMSSFromExtendedSeed(e)
				}
				got = xIdentity(w.c, k, 2)
			})
			if out.Kind != rt.Value {
				r.Violate("C09/wallets/xmss/"+route, fmt.Sprintf("recovery of wallet %d from the %s exported earlier in the session failed: %s", i, route, out), jobCase(j), "", out.String())
				return
			}
			if d := w.id.diff(got); d != "" {
				r.Violate("C09/wallets/xmss/"+route, fmt.Sprintf("wallet %d recovered from the %s exported earlier in the session differs in its %s (%s)", i, route, d, w.c), jobCase(j), "", "")
				return
			}
			r.Count("session_xmss_recoveries_"+route, 1)
			r.Distinct("session-x", w.c.Seed, w.c.H, w.c.HF, route)
		}
		c09Foreign(rng, r, w.id.mnem)
		dwl := ds[i]
		for _, route := range []string{"mnemonic", "hexseed"} {
			r.Eval(1)
			var d2 *dilithium.Dilithium
			var err error
			out := rt.Call(func() {
				if route == "mnemonic" {
					d2, err = dilithium.NewDilithiumFromMnemonic(dwl.mnem)
				} else {
					d2, err = dilithium.NewDilithiumFromHexSeed(dwl.hexseed[2:])
				}
			})
			if out.Kind != rt.Value || err != nil {
				r.Violate("C09/wallets/dilithium/"+route, fmt.Sprintf("recovery of Dilithium wallet %d from the %s exported earlier in the session failed: %s %v", i, route, out, err), jobCase(j), "", "")
				return
			}
			sg, _ := d2.Sign([]byte("wallet"))
			if d2.GetPK() != dwl.pk || d2.GetAddress() != dwl.addr || sg != dwl.sig || d2.GetSeed() != dwl.seed {
				r.Violate("C09/wallets/dilithium/"+route, fmt.Sprintf("Dilithium wallet %d recovered from the %s exported earlier in the session is a different wallet", i, route), jobCase(j), "", "")
				return
			}
			r.Count("session_dilithium_recoveries_"+route, 1)
			r.Distinct("session-d", rt.Hex(dwl.seed[:8]), route)
		}
	}
	r.Sample(map[string]interface{}{"session_wallets": n, "phases": "export all, then recover in shuffled order", "shared_seed_under_several_configs": true})
}

// c09Foreign: calls a wallet application makes between export and recovery — validating other people's
// addresses (every descriptor value), deriving addresses from foreign public keys, and refusing mistyped
// phrases. Outcomes are not judged here (C11/C14/C10 do that); the point is the history they create.
func c09Foreign(rng *rt.Rand, r *rt.Rec, phrase string) {
	for b0 := 0; b0 < 256; b0 += 1 + rng.Intn(2) {
		for b1 := 0; b1 < 256; b1 += 1 + rng.Intn(12) {
			var a [20]byte
			copy(a[:], rng.Bytes(20))
			a[0], a[1] = byte(b0), byte(b1)
			xmss.IsValidXMSSAddress(a)
			dilithium.IsValidDilithiumAddress(a)
			if rng.Intn(16) == 0 {
				var pk [67]byte
				copy(pk[:], rng.Bytes(67))
				pk[0], pk[1] = byte(b0), byte(b1)
				rt.Call(func() { xmss.GetXMSSAddressFromPK(pk) })
				rt.Call(func() { xmss.Verify([]byte("m"), make([]byte, 2180+32*2*int(b1&15)), pk) })
			}
		}
	}
	if phrase != "" {
		w := strings.Split(phrase, " ")
		for t := 0; t < 3; t++ {
			c := append([]string(nil), w...)
			c[1+rng.Intn(len(c)-1)] = "notaword"
			o := rt.Call(func() { misc.MnemonicToExtendedSeedBin(strings.Join(c, " ")) })
			rt.Call(func() { misc.MnemonicToSeedBin(strings.Join(c[:32], " ")) })
			r.Count("foreign_refused_phrases_"+o.Kind, 1)
		}
	}
	r.Count("foreign_material_phases", 1)
}

package main

import (
	"bytes"
	"fmt"

	"github.com/theQRL/go-qrllib/dilithium"

	"verifmon/ref/dilref"
	"verifmon/rt"
)

// C03 — every Dilithium signature and sealed message verifies.

func init() {
	monitors["C03"] = &Monitor{Plan: c03Plan, Run: c03Run, Replay: c03Replay}
}

func c03Plan(tier string, seed uint64) (jobs []rt.Job) {
	nb, keys := 32, 40
	if tier != "quick" {
		nb, keys = 320, 120
	}
	for b := 0; b < nb; b++ {
		jobs = append(jobs, rt.Job{ID: fmt.Sprintf("C03/roundtrip/%d", b), Kind: "rt", Cost: float64(keys) * 0.03, Args: map[string]interface{}{"batch": b, "keys": keys}})
	}
	return
}

type c03Case struct {
	Kind string `json:"kind"`
	Seed string `json:"seed"`
	Msg  string `json:"msg,omitempty"`
	MLen int    `json:"mlen"`
	Fill int    `json:"fill"` // -1: Msg given; otherwise MLen bytes of value Fill
}

func (c c03Case) msg() []byte {
	if c.Fill < 0 {
		return rt.UnHex(c.Msg)
	}
	return bytes.Repeat([]byte{byte(c.Fill)}, c.MLen)
}

// c03One checks the property's four equations for one (key, message).
func c03One(d *dilithium.Dilithium, msg []byte) string {
	pk := d.GetPK()
	sig, err := d.Sign(msg)
	if err != nil {
		return "Sign error: " + err.Error()
	}
	if !dilithium.Verify(msg, sig, &pk) {
		return "Verify(msg, Sign(msg), pk) is false"
	}
	sealed, err := d.Seal(msg)
	if err != nil {
		return "Seal error: " + err.Error()
	}
	if len(sealed) != dilithium.CryptoBytes+len(msg) {
		return fmt.Sprintf("len(Seal(msg)) = %d, expected %d", len(sealed), dilithium.CryptoBytes+len(msg))
	}
	opened := dilithium.Open(sealed, &pk)
	if opened == nil || !bytes.Equal(opened, msg) {
		return "Open(Seal(msg), pk) does not return the message"
	}
	if !bytes.Equal(dilithium.ExtractSignature(sealed), sig[:]) {
		return "ExtractSignature(Seal(msg)) differs from Sign(msg)"
	}
	if !bytes.Equal(dilithium.ExtractMessage(sealed), msg) {
		return "ExtractMessage(Seal(msg)) differs from the message"
	}
	// one negative: a different message must not verify
	other := append(append([]byte(nil), msg...), 0x01)
	if dilithium.Verify(other, sig, &pk) {
		return "signature also verifies for a longer message"
	}
	return ""
}

func c03Run(j *rt.Job, seed uint64, r *rt.Rec) {
	rng := rt.NewRand(seed, j.ID)
	seeds := [][48]byte{}
	if j.Int("batch") == 0 {
		seeds = append(seeds, fixedSeeds()...)
	}
	for len(seeds) < j.Int("keys") {
		seeds = append(seeds, rng.Seed48())
	}
	for ki, s := range seeds {
		var d *dilithium.Dilithium
		if ki%10 == 9 {
			// a key from fresh randomness: regenerate from its stored seed and use that seed for replay
			nd, err := dilithium.New()
			if err != nil {
				// not this property's business (C09 judges key creation from fresh randomness): use a seeded key
				r.Observe("info", "dilithium.New returned an error; seeded key used instead: "+err.Error())
				d = dilLibKey(s)
			} else {
				s = nd.GetSeed()
				d = nd
				r.Count("keys_from_New", 1)
			}
		} else {
			d = dilLibKey(s)
		}
		var ref *dilref.Key
		if ki%3 == 1 {
			// the first calls under this key's public key are refused ones (garbage signature, short sealed message)
			pk := d.GetPK()
			var g [dilithium.CryptoBytes]byte
			copy(g[:], rng.Bytes(dilithium.CryptoBytes))
			if ki%6 == 1 {
				g = [dilithium.CryptoBytes]byte{}
			}
			if dilithium.Verify([]byte("first"), g, &pk) || dilithium.Open(rng.Bytes(100), &pk) != nil || dilithium.Open(g[:], &pk) != nil {
				r.Violate("C03/garbage-accepted", "a garbage signature verified", c03Case{"c03", rt.Hex(s[:]), "", 0, 0}, "", "")
				return
			}
			r.Count("keys_whose_first_verification_was_a_refusal", 1)
		}
		if ki == 0 {
			// dense message-length sweep: every length in a window that moves with the batch number,
			// so that one run covers 0..(20*batches-1) completely
			lo := j.Int("batch") * 20
			for l := lo; l < lo+20; l++ {
				cs := c03Case{"c03", rt.Hex(s[:]), "", l, l & 0xFF}
				r.Eval(1)
				if why := c03One(d, cs.msg()); why != "" {
					r.Violate("C03/roundtrip", why+fmt.Sprintf(" (message length %d)", l), cs, "", "")
					return
				}
				r.Count("roundtrips_ok", 1)
				r.Count("length_sweep", 1)
				r.Distinct(cs.Seed, cs.MLen, cs.Fill)
			}
			r.Observe("length_sweep_windows", fmt.Sprintf("[%05d,%05d)", lo, lo+20))
			// nil message, lengths around 2^16 and 2^20, and a message with spare capacity behind it
			if why := c03One(d, nil); why != "" {
				r.Violate("C03/roundtrip", why+" (nil message)", c03Case{"c03", rt.Hex(s[:]), "", 0, 0}, "", "")
				return
			}
			for _, l := range []int{65535, 65536, 65537, 1 << 20, 1<<20 + 1} {
				if j.Int("batch")%4 != 0 && l >= 1<<20 {
					continue
				}
				cs := c03Case{"c03", rt.Hex(s[:]), "", l, l & 0xFF}
				r.Eval(1)
				if why := c03One(d, cs.msg()); why != "" {
					r.Violate("C03/roundtrip", why+fmt.Sprintf(" (message length %d)", l), cs, "", "")
					return
				}
				r.Count("roundtrips_ok", 1)
				r.Observe("message_lengths", fmt.Sprintf("%07d", l))
			}
			buf := rng.Bytes(100)
			copy(buf[60:], "CANARY-CANARY-CANARY-CANARY-CANARY-CANAR")
			m := buf[:60:100]
			why := c03One(d, m)
			if why == "" && string(buf[60:]) != "CANARY-CANARY-CANARY-CANARY-CANARY-CANAR" {
				why = "Sign/Seal wrote into the spare capacity behind the caller's message"
			}
			if why != "" {
				r.Violate("C03/caller-buffer", why, c03Case{"c03", rt.Hex(s[:]), rt.Hex(m), 60, -1}, "", "")
				return
			}
			r.Count("spare_capacity_checks", 1)
		}
		for m := 0; m < 12; m++ {
			var cs c03Case
			switch {
			case m < 10:
				msg := dilMsg(rng, m+10*rng.Intn(4))
				cs = c03Case{"c03", rt.Hex(s[:]), rt.Hex(msg), len(msg), -1}
			case m == 10:
				cs = c03Case{"c03", rt.Hex(s[:]), "", 10000, rng.Intn(256)}
			default:
				l := 100000
				if ki%8 != 0 {
					l = 2000 + rng.Intn(3000)
				}
				cs = c03Case{"c03", rt.Hex(s[:]), "", l, rng.Intn(256)}
			}
			msg := cs.msg()
			r.Eval(1)
			if why := c03One(d, msg); why != "" {
				r.Violate("C03/roundtrip", why+fmt.Sprintf(" (message length %d)", len(msg)), cs, "", "")
				return
			}
			r.Count("roundtrips_ok", 1)
			r.Observe("message_lengths", fmt.Sprintf("%06d", len(msg)))
			r.Distinct(cs.Seed, cs.Msg, cs.MLen, cs.Fill)
			// a sample is also classified by the reference: which rejection exits did this signature take?
			if (ki*12+m)%20 == 0 && len(msg) <= 1000 {
				if ref == nil {
					ref = dilRefKey(s)
				}
				_, att := ref.Sign(msg, dilref.Knobs{})
				r.Count("classified_signatures", 1)
				r.Count(fmt.Sprintf("classified_attempts_%02d", minInt(len(att), 12)), 1)
				for _, a := range att {
					r.Count("classified_exit_"+a.Exit, 1)
				}
			}
			if m == 0 {
				r.Sample(map[string]interface{}{"seed": cs.Seed[:16] + "..", "msg_len": len(msg), "verify": true, "open": "equal", "sealed_len": 4595 + len(msg)})
			}
		}
	}
}

func c03Replay(cs map[string]interface{}) (bool, string) {
	var c c03Case
	if err := rt.Decode(cs, &c); err != nil {
		return false, err.Error()
	}
	var s [48]byte
	copy(s[:], rt.UnHex(c.Seed))
	why := c03One(dilLibKey(s), c.msg())
	if why != "" {
		return true, why
	}
	return false, "all four round-trip equations hold"
}

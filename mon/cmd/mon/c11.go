package main

import (
	"bytes"
	"fmt"

	"github.com/theQRL/go-qrllib/common"
	"github.com/theQRL/go-qrllib/dilithium"
	"github.com/theQRL/go-qrllib/xmss"

	"verifmon/ref/addrref"
	"verifmon/rt"
)

// C11 — addresses and descriptors are derived and validated as specified.

func init() {
	monitors["C11"] = &Monitor{Plan: c11Plan, Run: c11Run, Replay: c11Replay}
}

func c11Plan(tier string, seed uint64) (jobs []rt.Job) {
	q := tier == "quick"
	add := func(kind string, cost float64, a map[string]interface{}) {
		jobs = append(jobs, rt.Job{ID: fmt.Sprintf("C11/%s/%d", kind, len(jobs)), Kind: kind, Cost: cost, Args: a})
	}
	add("descriptor", 1, map[string]interface{}{})
	n := 4
	if !q {
		n = 32
	}
	for b := 0; b < n; b++ {
		add("derive", 2, map[string]interface{}{"n": 3000})
		add("legacy", 2, map[string]interface{}{"n": 60})
	}
	for hf := 0; hf < 3; hf++ {
		add("realkeys", 2, map[string]interface{}{"hf": hf})
	}
	return
}

type c11Case struct {
	Kind string `json:"kind"`
	Fn   string `json:"fn"`
	In   string `json:"in"`
}

// c11One evaluates one function on one input against the reference; "" if equal.
func c11One(fn string, in []byte) (why string, outcome string) {
	switch fn {
	case "GetXMSSAddressFromPK":
		var pk [67]byte
		copy(pk[:], in)
		var a [20]byte
		o := rt.Call(func() { a = xmss.GetXMSSAddressFromPK(pk) })
		if o.Kind == rt.Fault {
			return "runtime fault: " + o.Text, o.Kind
		}
		if o.Kind == rt.Refusal {
			if addrref.ParseDesc(in[:3]).AddrFormat == 0 {
				return "refused a public key with the supported address format: " + o.Text, o.Kind
			}
			return "", o.Kind
		}
		if want := addrref.XMSSAddress(in); !bytes.Equal(a[:], want) {
			return fmt.Sprintf("address %x, definition gives %x", a, want), o.Kind
		}
		// own scheme valid / other scheme invalid, for keys declaring the XMSS scheme
		if addrref.ParseDesc(in[:3]).SigType == 0 && addrref.ParseDesc(in[:3]).AddrFormat == 0 {
			if !xmss.IsValidXMSSAddress(a) {
				return "derived XMSS address is not a valid XMSS address", o.Kind
			}
			if dilithium.IsValidDilithiumAddress(a) {
				return "derived XMSS address is a valid Dilithium address", o.Kind
			}
		}
	case "GetDilithiumAddressFromPK":
		var pk [2592]byte
		copy(pk[:], in)
		a := dilithium.GetDilithiumAddressFromPK(pk)
		if want := addrref.DilithiumAddress(pk[:]); !bytes.Equal(a[:], want) {
			return fmt.Sprintf("address %x, definition gives %x", a, want), rt.Value
		}
		if !dilithium.IsValidDilithiumAddress(a) {
			return "derived Dilithium address is not a valid Dilithium address", rt.Value
		}
		if xmss.IsValidXMSSAddress(a) {
			return "derived Dilithium address is a valid XMSS address", rt.Value
		}
	case "GetLegacyXMSSAddressFromPK":
		var pk [67]byte
		copy(pk[:], in)
		var a [39]byte
		o := rt.Call(func() { a = xmss.GetLegacyXMSSAddressFromPK(pk) })
		if o.Kind == rt.Fault {
			return "runtime fault: " + o.Text, o.Kind
		}
		if o.Kind == rt.Refusal {
			if addrref.ParseDesc(in[:3]).AddrFormat == 0 {
				return "refused a public key with the supported address format: " + o.Text, o.Kind
			}
			return "", o.Kind
		}
		if want := addrref.LegacyAddress(in); !bytes.Equal(a[:], want) {
			return fmt.Sprintf("legacy address %x, definition gives %x", a, want), o.Kind
		}
		if !xmss.IsValidLegacyXMSSAddress(a) {
			return "derived legacy address fails its own validity check", o.Kind
		}
	case "IsValidLegacyXMSSAddress":
		var a [39]byte
		copy(a[:], in)
		got := xmss.IsValidLegacyXMSSAddress(a)
		if want := addrref.LegacyValid(in); got != want {
			return fmt.Sprintf("IsValidLegacyXMSSAddress = %v, reference predicate = %v", got, want), rt.Value
		}
	case "IsValidXMSSAddress":
		var a [20]byte
		copy(a[:], in)
		if got, want := xmss.IsValidXMSSAddress(a), addrref.IsValidXMSS(in); got != want {
			return fmt.Sprintf("IsValidXMSSAddress = %v, reference = %v", got, want), rt.Value
		}
	case "IsValidDilithiumAddress":
		var a [20]byte
		copy(a[:], in)
		if got, want := dilithium.IsValidDilithiumAddress(a), addrref.IsValidDilithium(in); got != want {
			return fmt.Sprintf("IsValidDilithiumAddress = %v, reference = %v", got, want), rt.Value
		}
	}
	return "", rt.Value
}

func c11Check(r *rt.Rec, fn string, in []byte) bool {
	r.Eval(1)
	why, oc := c11One(fn, in)
	r.Count(fn+"_"+oc, 1)
	if why != "" {
		r.Violate("C11/"+fn, fn+": "+why, c11Case{"c11", fn, rt.Hex(in)}, "", "")
		return false
	}
	r.Distinct(fn, rt.Digest(in))
	return true
}

func c11Run(j *rt.Job, seed uint64, r *rt.Rec) {
	rng := rt.NewRand(seed, j.ID)
	switch j.Kind {
	case "descriptor":
		// all 16^4 field values: decode(encode(d)) == d through both decoders, bytes as specified
		for hf := 0; hf < 16; hf++ {
			for st := 0; st < 16; st++ {
				for hn := 0; hn < 16; hn++ {
					for af := 0; af < 16; af++ {
						r.Eval(1)
						d := xmss.NewQRLDescriptor(uint8(2*hn), xmss.HashFunction(hf), common.SignatureType(st), common.AddrFormatType(af))
						b := d.GetBytes()
						want := addrref.Desc{Hash: hf, SigType: st, Height: 2 * hn, AddrFormat: af}.Bytes()
						cs := c11Case{"c11desc", "descriptor", fmt.Sprintf("%02x%02x%02x%02x", hf, st, hn, af)}
						if b != want {
							r.Violate("C11/descriptor-bytes", fmt.Sprintf("descriptor(hash=%d,sig=%d,height=%d,addr=%d) encodes to %x, specification %x", hf, st, 2*hn, af, b, want), cs, "", "")
							return
						}
						for name, dec := range map[string]*xmss.QRLDescriptor{"new": xmss.NewQRLDescriptorFromBytes(b[:]), "legacy": xmss.LegacyQRLDescriptorFromBytes(b[:])} {
							if int(dec.GetHashFunction()) != hf || int(dec.GetSignatureType()) != st || int(dec.GetHeight()) != 2*hn || int(dec.GetAddrFormatType()) != af {
								r.Violate("C11/descriptor-roundtrip", fmt.Sprintf("decode(encode(d)) != d via the %s decoder for (hash=%d,sig=%d,height=%d,addr=%d)", name, hf, st, 2*hn, af), cs, "", "")
								return
							}
							if dec.GetBytes() != b {
								r.Violate("C11/descriptor-roundtrip", "encode(decode(bytes)) != bytes", cs, "", "")
								return
							}
						}
						var es [51]byte
						copy(es[:3], b[:])
						var epk [67]byte
						copy(epk[:3], b[:])
						if xmss.NewQRLDescriptorFromExtendedSeed(es).GetBytes() != b || xmss.NewQRLDescriptorFromExtendedPK(&epk).GetBytes() != b || xmss.LegacyQRLDescriptorFromExtendedPK(&epk).GetBytes() != b {
							r.Violate("C11/descriptor-roundtrip", "descriptor read from an extended seed / public key differs", cs, "", "")
							return
						}
					}
				}
			}
		}
		r.DistinctN(65536)
		r.Observe("exhaustive", "all 16x16x16x16 descriptor field values through both decoders")
		r.Sample(map[string]interface{}{"descriptor_fields": "hash x sigtype x height/2 x addrformat", "combinations": 65536})
	case "derive":
		for t := 0; t < j.Int("n"); t++ {
			pk := rng.Bytes(67)
			switch t % 4 {
			case 0: // a descriptor a real key can carry
				pk[0], pk[1], pk[2] = byte(rng.Intn(3)), byte(2+rng.Intn(14)), 0
			case 1: // any hash/sig nibble, supported address format
				pk[1] &= 0x0F
			}
			if !c11Check(r, "GetXMSSAddressFromPK", pk) || !c11Check(r, "GetLegacyXMSSAddressFromPK", pk) {
				return
			}
			if t%8 == 0 {
				if !c11Check(r, "GetDilithiumAddressFromPK", rng.Bytes(2592)) {
					return
				}
			}
			a := rng.Bytes(20)
			if t%3 == 0 {
				a[0] = byte(rng.Intn(2) << 4)
				a[1] &= 0x0F
			}
			if !c11Check(r, "IsValidXMSSAddress", a) || !c11Check(r, "IsValidDilithiumAddress", a) {
				return
			}
		}
		// every value of the two descriptor bytes for the validators
		for b0 := 0; b0 < 256; b0++ {
			for b1 := 0; b1 < 256; b1 += 1 + rng.Intn(3) {
				a := rng.Bytes(20)
				a[0], a[1] = byte(b0), byte(b1)
				if !c11Check(r, "IsValidXMSSAddress", a) || !c11Check(r, "IsValidDilithiumAddress", a) {
					return
				}
			}
		}
		r.Sample(map[string]interface{}{"derivations": j.Int("n"), "functions": "GetXMSSAddressFromPK, GetLegacyXMSSAddressFromPK, GetDilithiumAddressFromPK, validators"})
	case "legacy":
		for t := 0; t < j.Int("n"); t++ {
			pk := rng.Bytes(67)
			pk[0], pk[1], pk[2] = byte(rng.Intn(3)), byte(2+rng.Intn(14)), 0
			good := addrref.LegacyAddress(pk)
			if !c11Check(r, "IsValidLegacyXMSSAddress", good) {
				return
			}
			for bit := 0; bit < 39*8; bit++ {
				if !c11Check(r, "IsValidLegacyXMSSAddress", flipBit(good, bit)) {
					return
				}
			}
			for af := 0; af < 16; af++ {
				a := append([]byte(nil), good...)
				a[1] = a[1]&0x0F | byte(af<<4)
				if !c11Check(r, "IsValidLegacyXMSSAddress", a) {
					return
				}
				// same with the checksum recomputed for the edited prefix (only the format nibble is then wrong)
				fixed := addrref.LegacyAddress(append([]byte{a[0], a[1], a[2]}, pk[3:]...))
				copy(fixed[:3], a[:3])
				if !c11Check(r, "IsValidLegacyXMSSAddress", recomputeLegacyChecksum(fixed)) {
					return
				}
			}
			if !c11Check(r, "IsValidLegacyXMSSAddress", rng.Bytes(39)) {
				return
			}
			// checksum correct in 3 of 4 bytes
			for k := 0; k < 4; k++ {
				a := append([]byte(nil), good...)
				a[35+k] ^= byte(1 + rng.Intn(255))
				if !c11Check(r, "IsValidLegacyXMSSAddress", a) {
					return
				}
			}
		}
		r.Sample(map[string]interface{}{"legacy_addresses": j.Int("n"), "bit_flips_each": 312})
	case "realkeys":
		hf := j.Int("hf")
		for _, h := range []int{4, 6} {
			c := XCfg{H: h, HF: hf, Seed: rt.Hex(rng.Bytes(48))}
			k := c.newLib()
			pk := k.GetPK()
			a := k.GetAddress()
			la := k.GetLegacyAddress()
			r.Eval(1)
			if !bytes.Equal(a[:], addrref.XMSSAddress(pk[:])) || !bytes.Equal(la[:], addrref.LegacyAddress(pk[:])) {
				r.Violate("C11/GetAddress", "a key's GetAddress/GetLegacyAddress differs from the definition", c11Case{"c11", "GetXMSSAddressFromPK", rt.Hex(pk[:])}, "", "")
				return
			}
			if !c11Check(r, "GetXMSSAddressFromPK", pk[:]) || !c11Check(r, "GetLegacyXMSSAddressFromPK", pk[:]) {
				return
			}
		}
		for t := 0; t < 20; t++ {
			d := dilLibKey(rng.Seed48())
			pk := d.GetPK()
			a := d.GetAddress()
			r.Eval(1)
			if !bytes.Equal(a[:], addrref.DilithiumAddress(pk[:])) {
				r.Violate("C11/GetAddress", "a Dilithium key's GetAddress differs from the definition", c11Case{"c11", "GetDilithiumAddressFromPK", rt.Hex(pk[:])}, "", "")
				return
			}
			if !c11Check(r, "GetDilithiumAddressFromPK", pk[:]) {
				return
			}
		}
		r.Sample(map[string]interface{}{"real_keys": "XMSS h=4,6 and 20 Dilithium keys", "hash": hashNames[hf]})
	}
}

func recomputeLegacyChecksum(a []byte) []byte {
	out := append([]byte(nil), a[:35]...)
	full := addrref.LegacyChecksum(out)
	return append(out, full...)
}

func c11Replay(cs map[string]interface{}) (bool, string) {
	var c c11Case
	if err := rt.Decode(cs, &c); err != nil {
		return false, err.Error()
	}
	if c.Kind == "c11desc" {
		rec := rt.NewRec("replay")
		j := &rt.Job{ID: "replay", Kind: "descriptor", Args: map[string]interface{}{}}
		c11Run(j, 1, rec)
		res := rec.Finish()
		if len(res.Violations) > 0 {
			return true, res.Violations[0].What
		}
		return false, "descriptor round trip holds for all field values"
	}
	why, _ := c11One(c.Fn, rt.UnHex(c.In))
	if why == "" {
		return false, c.Fn + " agrees with the definition"
	}
	return true, c.Fn + ": " + why
}

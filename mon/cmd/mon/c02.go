package main

import (
	"fmt"

	"github.com/theQRL/go-qrllib/xmss"

	"verifmon/rt"
)

// C02 — a one-time index is never reused, rewound or exceeded.
// Random operation histories (hostile SetIndex arguments, run past exhaustion)
// are executed on one key object; every operation is recorded as an event at the
// client boundary; the recorded log is then checked offline against the counter
// automaton of the property.

func init() {
	monitors["C02"] = &Monitor{Plan: c02Plan, Run: c02Run, Replay: c02Replay}
}

func c02Plan(tier string, seed uint64) (jobs []rt.Job) {
	rng := rt.NewRand(seed, "C02/plan")
	q := tier == "quick"
	add := func(c XCfg, hist int, cost float64) {
		a := c.args()
		a["histories"] = hist
		jobs = append(jobs, rt.Job{ID: fmt.Sprintf("C02/%s%s/%d", c, map[bool]string{true: "/seam"}[c.Seam], len(jobs)), Kind: "c02", Cost: cost, Args: a})
	}
	mult := 1
	if !q {
		mult = 12
	}
	for rep := 0; rep < mult; rep++ {
		for hf := 0; hf < 3; hf++ {
			s := rng.Seed48()
			add(XCfg{H: 4, HF: hf, Seed: rt.Hex(s[:])}, 12, 4)
			add(XCfg{H: 6, HF: hf, Seed: rt.Hex(s[:])}, 3, 5)
			for _, h := range []int{4, 6, 8, 10, 12, 16} {
				s := rng.Seed48()
				hist := 14
				if h == 12 {
					hist = 6
				}
				if h == 16 {
					hist = 3
				}
				add(XCfg{H: h, HF: hf, Seed: rt.Hex(s[:]), Seam: true}, hist, 3)
			}
		}
	}
	if !q {
		for _, h := range []int{18, 20} {
			s := rng.Seed48()
			add(XCfg{H: h, HF: 0, Seed: rt.Hex(s[:]), Seam: true}, 6, 30)
		}
		// the top byte of the index: only a key of height >= 26 has indices >= 2^24. One fixed history on an
		// h=26 seam key that crosses 2^24 by signing and by jumping (about 2^24 traversal rounds; no exhaustion).
		s := rng.Seed48()
		add(XCfg{H: 26, HF: 0, Seed: rt.Hex(s[:]), Seam: true}, 1, 90)
		jobs[len(jobs)-1].Args["tall_index"] = true
		jobs[len(jobs)-1].Args["watchdog"] = 14400
	}
	return
}

// c02Event: one operation as observed at the client boundary.
type c02Event struct {
	N         int    `json:"n"`
	Op        string `json:"op"` // sign | set
	Arg       uint32 `json:"arg"`
	IdxBefore uint32 `json:"idx_before"`
	Outcome   string `json:"outcome"` // sig | refused | fault | ok
	Text      string `json:"text,omitempty"`
	SigIdx    int64  `json:"sig_idx"` // index embedded in the returned signature, -1 if none
	IdxAfter  uint32 `json:"idx_after"`
	StBefore  string `json:"st_before"`
	StAfter   string `json:"st_after"`
	ID        string `json:"id"` // digest of pk, address, seed, extended seed, height
}

type c02Case struct {
	Kind string `json:"kind"`
	Cfg  XCfg   `json:"cfg"`
	Ops  []XOp  `json:"ops"`
}

func idDigest(k *xmss.XMSS) string {
	pk := k.GetPK()
	ad := k.GetAddress()
	sd := k.GetSeed()
	es := k.GetExtendedSeed()
	return rt.Digest(pk[:], ad[:], sd[:], es[:], []byte{k.GetHeight()}, []byte(k.GetMnemonic()))
}

// c02Exec runs the operations on a fresh key and returns the recorded log.
func c02Exec(c XCfg, ops []XOp) []c02Event {
	k := c.newLib()
	var log []c02Event
	for n, op := range ops {
		ev := c02Event{N: n, Op: op.Op, Arg: op.Arg, IdxBefore: k.GetIndex(), SigIdx: -1}
		ev.StBefore = rt.Digest(xmss.VerifSnapshot(k))
		var sig []byte
		var err error
		var out rt.Outcome
		if op.Op == "sign" {
			out = rt.Call(func() { sig, err = k.Sign(rt.UnHex(op.Msg)) })
		} else {
			out = rt.Call(func() { k.SetIndex(op.Arg) })
		}
		switch {
		case out.Kind == rt.Fault:
			ev.Outcome, ev.Text = "fault", out.Text
		case out.Kind == rt.Refusal:
			ev.Outcome, ev.Text = "refused", out.Text
		case op.Op == "sign" && err != nil:
			ev.Outcome, ev.Text = "refused", "error: "+err.Error()
		case op.Op == "sign":
			ev.Outcome = "sig"
			if len(sig) >= 4 {
				ev.SigIdx = int64(sigIndex(sig))
			} else {
				ev.Outcome, ev.Text = "fault", "signature shorter than 4 bytes"
			}
		default:
			ev.Outcome = "ok"
		}
		ev.IdxAfter = k.GetIndex()
		ev.StAfter = rt.Digest(xmss.VerifSnapshot(k))
		ev.ID = idDigest(k)
		log = append(log, ev)
	}
	return log
}

// c02Check is the offline oracle: the counter automaton of the property run over the log.
// It returns "" or a description of the first refuting event.
func c02Check(h int, log []c02Event, id0 string) (int, string) {
	n := uint64(1) << uint(h)
	idx := uint64(0) // model state
	lastSig := int64(-1)
	for i, e := range log {
		if uint64(e.IdxBefore) != idx {
			return i, fmt.Sprintf("GetIndex before event is %d, model index is %d", e.IdxBefore, idx)
		}
		if e.Outcome == "fault" {
			return i, "operation ended in a runtime fault: " + e.Text
		}
		if e.ID != id0 {
			return i, "public key / address / seed / mnemonic / height reported by the object changed"
		}
		switch e.Op {
		case "sign":
			if idx >= n {
				if e.Outcome == "sig" {
					return i, fmt.Sprintf("a signature (index %d) was produced after the last leaf was used", e.SigIdx)
				}
			} else {
				if e.Outcome != "sig" {
					return i, fmt.Sprintf("Sign refused at index %d although leaves remain: %s", idx, e.Text)
				}
				if uint64(e.SigIdx) != idx {
					return i, fmt.Sprintf("signature carries index %d, expected %d", e.SigIdx, idx)
				}
				if e.SigIdx <= lastSig {
					return i, fmt.Sprintf("signature index %d does not exceed the previous one %d (one-time index reused)", e.SigIdx, lastSig)
				}
				if uint64(e.SigIdx) >= n {
					return i, "signature index >= 2^h"
				}
				lastSig = e.SigIdx
				idx++
			}
		case "set":
			j := uint64(e.Arg)
			if j >= n || j < idx {
				if e.Outcome != "refused" {
					return i, fmt.Sprintf("SetIndex(%d) at index %d (2^h=%d) was not refused", j, idx, n)
				}
			} else {
				if e.Outcome != "ok" {
					return i, fmt.Sprintf("legal SetIndex(%d) at index %d was refused: %s", j, idx, e.Text)
				}
				idx = j
			}
		}
		if e.Outcome == "refused" {
			if e.StAfter != e.StBefore {
				return i, "a refused operation changed the key's state"
			}
			if e.IdxAfter != e.IdxBefore {
				return i, "a refused operation changed the index"
			}
		}
		if uint64(e.IdxAfter) != idx {
			return i, fmt.Sprintf("GetIndex after event is %d, model index is %d", e.IdxAfter, idx)
		}
	}
	return -1, ""
}

// c02Gen draws a history: hostile SetIndex arguments, signatures, continuing past exhaustion.
func c02Gen(c XCfg, rng *rt.Rand, signBudget int) []XOp {
	n := uint64(1) << uint(c.H)
	var ops []XOp
	idx := uint64(0) // tracked by the generator only to aim arguments; the oracle has its own model
	length := 30 + rng.Intn(30)
	style := rng.Intn(4) // 0: mostly signs, 1: mixed, 2: rush to the end, 3: hostile heavy
	for t := 0; t < length; t++ {
		doSign := rng.Intn(100) < []int{75, 50, 35, 25}[style]
		if doSign && signBudget > 0 {
			ops = append(ops, XOp{Op: "sign", Msg: rt.Hex(rng.Bytes(rng.Intn(40)))})
			signBudget--
			if idx < n {
				idx++
			}
			continue
		}
		var a uint64
		switch rng.Intn(14) {
		case 0:
			a = idx - 1 // rewind by one (wraps to 2^64-1 -> truncated below when idx=0)
		case 1:
			a = 0
		case 2:
			a = idx
		case 3:
			a = idx + 1
		case 4:
			a = n - 2
		case 5:
			a = n - 1
		case 6:
			a = n
		case 7:
			a = n + 1
		case 8:
			a = 1 << 31
		case 9:
			a = 1<<32 - 1
		case 10:
			if idx > 0 {
				a = uint64(rng.Intn(int(idx)))
			}
		case 11:
			a = n + uint64(rng.Intn(1<<20))
		default:
			room := int64(n) - int64(idx)
			if room > 0 {
				step := room
				if style != 2 && room > 8 {
					step = room/4 + 1
				}
				a = idx + uint64(rng.Intn(int(step)))
			} else {
				a = idx
			}
		}
		a &= 0xFFFFFFFF
		ops = append(ops, XOp{Op: "set", Arg: uint32(a)})
		if a < n && a >= idx {
			idx = a
		}
	}
	// always finish by driving the key to exhaustion and beyond
	if idx < n-1 {
		ops = append(ops, XOp{Op: "set", Arg: uint32(n - 1)})
	}
	for t := 0; t < 3; t++ {
		ops = append(ops, XOp{Op: "sign", Msg: rt.Hex(rng.Bytes(5))})
	}
	ops = append(ops, XOp{Op: "set", Arg: uint32(n - 1)}, XOp{Op: "set", Arg: uint32(n)}, XOp{Op: "set", Arg: 0}, XOp{Op: "sign", Msg: ""})
	return ops
}

func c02Run(j *rt.Job, seed uint64, r *rt.Rec) {
	c := cfgFromJob(j)
	rng := rt.NewRand(seed, j.ID)
	r.Observe("configs", fmt.Sprintf("h=%d/%s/seam=%v", c.H, hashNames[c.HF], c.Seam))
	c.seam(func() {
		id0 := idDigest(c.newLib())
		for hN := 0; hN < j.Int("histories"); hN++ {
			budget := 1 << 20
			if !c.Seam {
				budget = 40
			}
			ops := c02Gen(c, rng, budget)
			if j.Bool("tall_index") {
				const t = uint32(1) << 24
				m := func() XOp { return XOp{Op: "sign", Msg: rt.Hex(rng.Bytes(6))} }
				ops = []XOp{{Op: "set", Arg: t - 2}, m(), m(), m(), {Op: "set", Arg: t - 1}, {Op: "set", Arg: 3},
					{Op: "set", Arg: t + 1<<16 + 7}, m(), {Op: "set", Arg: 1<<32 - 1}, {Op: "set", Arg: 1 << 26}, {Op: "set", Arg: 1 << 16}, m()}
			}
			log := c02Exec(c, ops)
			r.Count("histories", 1)
			at, why := c02Check(c.H, log, id0)
			exhausted := false
			for _, e := range log {
				r.Eval(1)
				r.Count("events_"+e.Op+"_"+e.Outcome, 1)
				if e.Outcome == "refused" {
					r.Observe("refusal_texts", e.Text)
				}
				cls := "legal"
				if e.Op == "set" {
					switch {
					case uint64(e.Arg) >= uint64(1)<<uint(c.H):
						cls = "beyond"
					case e.Arg < e.IdxBefore:
						cls = "rewind"
					case e.Arg == e.IdxBefore:
						cls = "same"
					}
				}
				if uint64(e.IdxBefore) == uint64(1)<<uint(c.H) {
					exhausted = true
					cls += "/exhausted"
				}
				r.Distinct(c.H, c.Seam, e.IdxBefore, e.Op, cls)
			}
			if exhausted {
				r.Count("histories_reaching_exhaustion", 1)
			}
			if at >= 0 {
				e := log[at]
				key := "C02/automaton/" + e.Op + "/" + e.Outcome
				r.Violate(key, fmt.Sprintf("history refuted at event %d (%s arg=%d at index %d -> %s): %s (%s)", at, e.Op, e.Arg, e.IdxBefore, e.Outcome, why, c),
					c02Case{"c02", c, ops[:at+1]}, "accepted by the counter automaton", why)
				return
			}
			if hN == 0 {
				var short []c02Event
				if len(log) > 6 {
					short = append(append(short, log[:3]...), log[len(log)-3:]...)
				} else {
					short = log
				}
				r.Sample(map[string]interface{}{"cfg": c.String(), "seam": c.Seam, "ops": len(ops), "events_head_tail": short})
			}
		}
	})
}

func c02Replay(cs map[string]interface{}) (bool, string) {
	var c c02Case
	if err := rt.Decode(cs, &c); err != nil {
		return false, "bad case: " + err.Error()
	}
	var at int
	var why string
	c.Cfg.seam(func() {
		id0 := idDigest(c.Cfg.newLib())
		log := c02Exec(c.Cfg, c.Ops)
		at, why = c02Check(c.Cfg.H, log, id0)
	})
	if at >= 0 {
		return true, fmt.Sprintf("history of %d operations refuted at event %d: %s", len(c.Ops), at, why)
	}
	return false, fmt.Sprintf("history of %d operations accepted by the automaton", len(c.Ops))
}

package main

import (
	"fmt"

	"github.com/theQRL/go-qrllib/dilithium"

	"verifmon/ref/dilref"
	"verifmon/rt"
)

// C12 — Dilithium ring arithmetic is exact on its whole operating domain.
// Dense / complete operand sweeps through the exported aliases; the oracle is the
// mathematical definition evaluated in int64 (dilref's rounding functions, plain
// modular arithmetic, schoolbook negacyclic product).

func init() {
	monitors["C12"] = &Monitor{Plan: c12Plan, Run: c12Run, Replay: c12Replay}
}

func c12Plan(tier string, seed uint64) (jobs []rt.Job) {
	q := tier == "quick"
	add := func(kind string, cost float64, a map[string]interface{}) {
		if a == nil {
			a = map[string]interface{}{}
		}
		jobs = append(jobs, rt.Job{ID: fmt.Sprintf("C12/%s/%d", kind, len(jobs)), Kind: kind, Cost: cost, Args: a})
	}
	for p := 0; p < 4; p++ {
		add("residues", 3, map[string]interface{}{"lo": p * dilQ / 4, "hi": (p + 1) * dilQ / 4})
	}
	for a1 := 0; a1 < 16; a1 += 4 {
		add("makehint", 2, map[string]interface{}{"a1lo": a1, "a1hi": a1 + 4})
	}
	// reduce32: int32 a <= 2^31 - 2^22 - 1
	const rmax = int64(1)<<31 - int64(1)<<22 - 1
	if q {
		add("reduce32", 2, map[string]interface{}{"lo": -(int64(1) << 31), "hi": rmax, "step": 1 << 10})
	} else {
		lo := -(int64(1) << 31)
		span := (rmax - lo + 1) / 32
		for p := int64(0); p < 32; p++ {
			hi := lo + span - 1
			if p == 31 {
				hi = rmax
			}
			add("reduce32", 8, map[string]interface{}{"lo": lo, "hi": hi, "step": 1})
			lo += span
		}
	}
	nm, cm := 4, 1<<20
	if !q {
		nm, cm = 64, 1<<22
	}
	for p := 0; p < nm; p++ {
		add("montgomery", 1, map[string]interface{}{"n": cm, "structured": p == 0})
	}
	add("chknorm", 4, map[string]interface{}{"step": map[bool]int{true: 8, false: 1}[q]})
	nn, cn := 8, 250
	if !q {
		nn, cn = 64, 3200
	}
	for p := 0; p < nn; p++ {
		add("ntt", float64(cn)*0.002, map[string]interface{}{"n": cn, "extreme": p == 0})
	}
	// the two transforms on their own, against the evaluation definition, over the whole documented input range |a| < q
	nt, ct := 2, 120
	if !q {
		nt, ct = 16, 1500
	}
	for p := 0; p < nt; p++ {
		add("transform", float64(ct)*0.004, map[string]interface{}{"n": ct, "extreme": p == 0})
	}
	nv := 4
	if !q {
		nv = 32
	}
	for p := 0; p < nv; p++ {
		add("matvec", 2, map[string]interface{}{"n": 12})
	}
	return
}

type c12Case struct {
	Kind string  `json:"kind"`
	Fn   string  `json:"fn"`
	A    int64   `json:"a"`
	B    int64   `json:"b,omitempty"`
	PA   []int32 `json:"pa,omitempty"`
	PB   []int32 `json:"pb,omitempty"`
	Rho  string  `json:"rho,omitempty"`
}

func mod(a int64) int64 { return dilref.Mod(a) }

// c12Scalar evaluates one scalar case; "" if the library equals the definition.
func c12Scalar(fn string, a, b int64) string {
	switch fn {
	case "power2Round":
		a1, a0 := dilithium.VerifPower2Round(int32(a))
		w1, w0 := dilref.Power2Round(a)
		if int64(a1) != w1 || int64(a0) != w0 {
			return fmt.Sprintf("power2Round(%d) = (%d,%d), definition (%d,%d)", a, a1, a0, w1, w0)
		}
	case "decompose":
		a1, a0 := dilithium.VerifDecompose(int32(a))
		w1, w0 := dilref.Decompose(a)
		if int64(a1) != w1 || int64(a0) != w0 {
			return fmt.Sprintf("decompose(%d) = (%d,%d), definition (%d,%d)", a, a1, a0, w1, w0)
		}
	case "useHint":
		got := dilithium.VerifUseHint(int32(a), int(b))
		if w := dilref.UseHint(b, a); int64(got) != w {
			return fmt.Sprintf("useHint(%d,%d) = %d, definition %d", a, b, got, w)
		}
	case "cAddQ":
		got := dilithium.VerifCAddQ(int32(a))
		if int64(got) != mod(a) {
			return fmt.Sprintf("cAddQ(%d) = %d, expected %d", a, got, mod(a))
		}
	case "makeHint": // a = a0, b = a1
		got := dilithium.VerifMakeHint(int32(a), int32(b))
		want := uint(0)
		if dilref.HighBits(mod(b*2*dilGamma2+a)) != b {
			want = 1
		}
		if got != want {
			return fmt.Sprintf("makeHint(a0=%d,a1=%d) = %d, definition [HighBits(a1*2g2+a0) != a1] = %d", a, b, got, want)
		}
	case "reduce32":
		r := int64(dilithium.VerifReduce32(int32(a)))
		if mod(r) != mod(a) || r < -6283009 || r > 6283009 {
			return fmt.Sprintf("reduce32(%d) = %d: not congruent or outside [-6283009, 6283009]", a, r)
		}
	case "montgomeryReduce":
		r := int64(dilithium.VerifMontgomeryReduce(a))
		// r * 2^32 == a (mod q), |r| < q
		if mod(mod(r)*mod(int64(1)<<32)) != mod(a) || r <= -dilQ || r >= dilQ {
			return fmt.Sprintf("montgomeryReduce(%d) = %d: r*2^32 != a (mod q) or |r| >= q", a, r)
		}
	}
	return ""
}

func c12Run(j *rt.Job, seed uint64, r *rt.Rec) {
	rng := rt.NewRand(seed, j.ID)
	bad := func(fn string, a, b int64, why string) {
		r.Violate("C12/"+fn, why, c12Case{Kind: "c12", Fn: fn, A: a, B: b}, "", "")
	}
	i64 := func(k string) int64 {
		f, _ := j.Args[k].(float64)
		return int64(f)
	}
	switch j.Kind {
	case "residues":
		lo, hi := i64("lo"), i64("hi")
		for a := lo; a < hi; a++ {
			for _, fn := range []string{"power2Round", "decompose", "cAddQ"} {
				if why := c12Scalar(fn, a, 0); why != "" {
					bad(fn, a, 0, why)
					return
				}
			}
			for h := int64(0); h < 2; h++ {
				if why := c12Scalar("useHint", a, h); why != "" {
					bad("useHint", a, h, why)
					return
				}
			}
			if why := c12Scalar("cAddQ", a-dilQ, 0); why != "" {
				bad("cAddQ", a-dilQ, 0, why)
				return
			}
			// corners named in the property
			_, r0 := dilref.Decompose(a)
			if a-r0 == dilQ-1 || a-(r0+1) == dilQ-1 {
				r.Count("corner_decompose_wrap_q-1", 1)
			}
			if a == (dilQ-1)/2 || a == (dilQ+1)/2 {
				r.Count("corner_half_q", 1)
			}
		}
		n := hi - lo
		r.Eval(6 * n)
		r.DistinctN(6 * n)
		r.Count("residues_swept_power2Round_decompose_useHint_cAddQ", n)
		r.Observe("exhaustive", fmt.Sprintf("residues [%d,%d) for power2Round, decompose, useHint(.,0), useHint(.,1), cAddQ", lo, hi))
		r.Sample(map[string]interface{}{"fn": "decompose", "a": hi - 1, "lib": fmt.Sprint(dilithium.VerifDecompose(int32(hi - 1)))})
	case "makehint":
		var n int64
		for a1 := i64("a1lo"); a1 < i64("a1hi"); a1++ {
			for a0 := int64(-2*dilGamma2 + 1); a0 < 2*dilGamma2; a0++ {
				if why := c12Scalar("makeHint", a0, a1); why != "" {
					bad("makeHint", a0, a1, why)
					return
				}
				n++
			}
			r.Count("corner_a0=-gamma2", 1)
		}
		r.Eval(n)
		r.DistinctN(n)
		r.Observe("exhaustive", fmt.Sprintf("makeHint a1 in [%d,%d) x a0 in (-2*gamma2, 2*gamma2)", i64("a1lo"), i64("a1hi")))
		r.Sample(map[string]interface{}{"fn": "makeHint", "a0": -dilGamma2, "a1": 0, "lib": dilithium.VerifMakeHint(-dilGamma2, 0)})
	case "reduce32":
		lo, hi, step := i64("lo"), i64("hi"), i64("step")
		var n int64
		for a := lo; a <= hi; a += step {
			r32 := int64(dilithium.VerifReduce32(int32(a)))
			d := r32 - a
			if d%dilQ != 0 || r32 < -6283009 || r32 > 6283009 {
				bad("reduce32", a, 0, c12Scalar("reduce32", a, 0))
				return
			}
			n++
		}
		if step > 1 {
			// structured operands: +-2^k +-{0,1}, multiples of q +-1, range ends
			for k := uint(0); k < 31; k++ {
				for _, d := range []int64{-1, 0, 1} {
					for _, s := range []int64{1, -1} {
						a := s*(int64(1)<<k) + d
						if a <= hi && a >= lo {
							if why := c12Scalar("reduce32", a, 0); why != "" {
								bad("reduce32", a, 0, why)
								return
							}
							n++
						}
					}
				}
			}
			for m := int64(-256); m <= 255; m++ {
				for _, d := range []int64{-1, 0, 1} {
					a := m*dilQ + d
					if a <= hi && a >= lo {
						if why := c12Scalar("reduce32", a, 0); why != "" {
							bad("reduce32", a, 0, why)
							return
						}
						n++
					}
				}
			}
			for _, a := range []int64{lo, lo + 1, hi - 1, hi, (1 << 22) - 1, 1 << 22, -(1 << 22), -(1 << 22) - 1, (1 << 22) + (1 << 23) - 1, (1 << 22) + (1 << 23)} {
				if why := c12Scalar("reduce32", a, 0); why != "" {
					bad("reduce32", a, 0, why)
					return
				}
				n++
			}
		} else {
			r.Observe("exhaustive", fmt.Sprintf("reduce32 all int32 in [%d,%d]", lo, hi))
		}
		r.Eval(n)
		r.DistinctN(n)
		r.Sample(map[string]interface{}{"fn": "reduce32", "a": hi, "lib": dilithium.VerifReduce32(int32(hi))})
	case "montgomery":
		var n int64
		lim := int64(1)<<31*dilQ - 1 // |a| < 2^31*q: see DESIGN.md (N3) for the closed end point
		two32 := mod(int64(1) << 32)
		chk := func(a int64) bool {
			rr := int64(dilithium.VerifMontgomeryReduce(a))
			if mod(mod(rr)*two32) != mod(a) || rr <= -dilQ || rr >= dilQ {
				bad("montgomeryReduce", a, 0, c12Scalar("montgomeryReduce", a, 0))
				return false
			}
			n++
			return true
		}
		if j.Bool("structured") {
			for _, a := range []int64{lim, -lim, lim - 1, -lim + 1, -lim - 1, 0, 1, -1, dilQ, -dilQ, 1 << 32, -(1 << 32), (1 << 32) - 1, (1 << 32) + 1, (1 << 31), -(1 << 31), (1 << 31) - 1} {
				if !chk(a) {
					return
				}
			}
			for k := int64(-4096); k <= 4096; k++ {
				if !chk(k*dilQ) || !chk(k<<32+1) || !chk(k<<32-1) || !chk(k*dilQ*(1<<18)) {
					return
				}
			}
			// every zeta times every extreme coefficient the butterflies can meet
			z := dilithium.VerifZetas()
			for _, zt := range z {
				for _, c := range []int64{dilQ - 1, -(dilQ - 1), 9*dilQ - 1, -(9*dilQ - 1), 1 << 23, -(1 << 23), dilGamma1, 2, -2, 1<<31 - 1, -(1 << 31)} {
					p := int64(zt) * c
					if p <= lim && p >= -lim {
						if !chk(p) {
							return
						}
					}
				}
			}
			r.Count("montgomery_structured", n)
		}
		for t := 0; t < j.Int("n"); t++ {
			u := rng.U64()
			a := int64(u%uint64(2*lim+1)) - lim
			if !chk(a) {
				return
			}
		}
		r.Eval(n)
		r.DistinctN(n) // 2^55-value domain: collisions among seeded draws are negligible
		r.Sample(map[string]interface{}{"fn": "montgomeryReduce", "a": lim, "lib": dilithium.VerifMontgomeryReduce(lim)})
	case "chknorm":
		// polyChkNorm(a,B) == [ |a mod+- q| >= B ] for a over reduce32's output range
		bounds := []int32{dilGamma1 - dilBeta, dilGamma2 - dilBeta, dilGamma2, dilGamma1, 1, (dilQ - 1) / 8}
		var n int64
		var p [256]int32
		step := int64(j.Int("step"))
		for a := int64(-6283009) + int64(rng.Intn(int(step))); a <= 6283009; a += step {
			pos := rng.Intn(256)
			p[pos] = int32(a)
			abs := dilref.CMod(a) // centred representative of a mod q
			if abs < 0 {
				abs = -abs
			}
			for _, B := range bounds {
				want := 0
				if abs >= int64(B) {
					want = 1
				}
				if got := dilithium.VerifPolyChkNorm(&p, B); got != want {
					r.Violate("C12/polyChkNorm", fmt.Sprintf("polyChkNorm(coefficient %d at position %d, bound %d) = %d, expected %d", a, pos, B, got, want), c12Case{Kind: "c12", Fn: "polyChkNorm", A: a, B: int64(B)}, "", "")
					return
				}
				n++
			}
			p[pos] = 0
		}
		// bound at every boundary, every position
		for pos := 0; pos < 256; pos++ {
			for _, B := range bounds {
				for _, a := range []int32{B - 1, B, -(B - 1), -B} {
					p[pos] = a
					want := 0
					if ca := dilref.CMod(int64(a)); ca >= int64(B) || -ca >= int64(B) {
						want = 1
					}
					if got := dilithium.VerifPolyChkNorm(&p, B); got != want {
						r.Violate("C12/polyChkNorm", fmt.Sprintf("polyChkNorm(coefficient %d at position %d, bound %d) = %d, expected %d", a, pos, B, got, want), c12Case{Kind: "c12", Fn: "polyChkNorm", A: int64(a), B: int64(B)}, "", "")
						return
					}
					n++
				}
				p[pos] = 0
			}
		}
		r.Eval(n)
		r.DistinctN(n)
		r.Sample(map[string]interface{}{"fn": "polyChkNorm", "bounds": bounds, "coefficient_range": []int{-6283009, 6283009}, "step": step})
	case "ntt":
		c12NTT(j, rng, r)
	case "matvec":
		c12MatVec(j, rng, r)
	case "transform":
		c12Transform(j, rng, r)
	}
}

// The transforms by definition: ntt(a)[2k] = a(r_k), ntt(a)[2k+1] = a(-r_k) with r_k = 1753^brv8(128+k) mod q
// (CRYSTALS-Dilithium specification, section 2.2 / reference ntt.c), and invNTTToMont(x) = 2^32 * ntt^-1(x).
var c12RootTab [256]int64

func c12Roots() *[256]int64 {
	if c12RootTab[0] == 0 {
		pow := func(b, e int64) int64 {
			r := int64(1)
			for ; e > 0; e >>= 1 {
				if e&1 == 1 {
					r = r * b % dilQ
				}
				b = b * b % dilQ
			}
			return r
		}
		for k := 0; k < 128; k++ {
			v, rv := 128+k, 0
			for b := 0; b < 8; b++ {
				rv |= ((v >> b) & 1) << (7 - b)
			}
			root := pow(1753, int64(rv))
			c12RootTab[2*k] = root
			c12RootTab[2*k+1] = dilQ - root
		}
	}
	return &c12RootTab
}

func c12EvalAt(p *[256]int32, x int64) int64 {
	acc := int64(0)
	for i := 255; i >= 0; i-- {
		acc = mod(acc*x + int64(p[i]))
	}
	return acc
}

// c12NTTDirect: every output coefficient of ntt(a) is congruent to a evaluated at the corresponding root.
func c12NTTDirect(a [256]int32) string {
	h := a
	dilithium.VerifNTT(&h)
	roots := c12Roots()
	for k := range h {
		if want := c12EvalAt(&a, roots[k]); mod(int64(h[k])) != want {
			return fmt.Sprintf("ntt(a)[%d] = %d (mod q: %d), a evaluated at the root %d gives %d", k, h[k], mod(int64(h[k])), roots[k], want)
		}
	}
	return ""
}

// c12InvNTTDirect: y = invNTTToMont(x) for |x_i| < q lies in (-q, q) and is the polynomial whose evaluations are 2^32 * x.
func c12InvNTTDirect(x [256]int32) string {
	y := x
	dilithium.VerifInvNTTToMont(&y)
	roots := c12Roots()
	const mont = (int64(1) << 32) % dilQ
	for k := range y {
		if int64(y[k]) <= -dilQ || int64(y[k]) >= dilQ {
			return fmt.Sprintf("invNTTToMont(x)[%d] = %d, outside (-q, q)", k, y[k])
		}
	}
	for k := range y {
		if got, want := c12EvalAt(&y, roots[k]), mod(mod(int64(x[k]))*mont); got != want {
			return fmt.Sprintf("invNTTToMont(x) evaluated at root %d (slot %d) gives %d, definition 2^32*x[%d] mod q = %d (x[%d] = %d, sum of inputs %d)", roots[k], k, got, k, want, k, x[k], c12Sum(&x))
		}
	}
	return ""
}

func c12Sum(p *[256]int32) (s int64) {
	for _, v := range p {
		s += int64(v)
	}
	return
}

func c12Transform(j *rt.Job, rng *rt.Rand, r *rt.Rec) {
	check := func(a [256]int32, label string) bool {
		r.Eval(2)
		if why := c12NTTDirect(a); why != "" {
			r.Violate("C12/ntt", why+" ("+label+")", c12Case{Kind: "c12", Fn: "ntt-direct", PA: a[:]}, "", "")
			return false
		}
		if why := c12InvNTTDirect(a); why != "" {
			r.Violate("C12/invNTTToMont", why+" ("+label+")", c12Case{Kind: "c12", Fn: "invntt-direct", PA: a[:]}, "", "")
			return false
		}
		r.Count("transforms_"+label, 2)
		r.Distinct(label, rt.Digest(i32bytes(a[:])))
		return true
	}
	if j.Bool("extreme") {
		// every coefficient at an end of the documented range, of reduce32's range, and mixtures
		vals := []int32{dilQ - 1, -(dilQ - 1), 6283008, -6283009, dilQ - 2, (dilQ - 1) / 2, -(dilQ - 1) / 2, 1 << 22, -(1 << 22), 1, -1, 0}
		for _, v := range vals {
			for _, w := range vals {
				for _, period := range []int{1, 2, 128, 256} {
					var p [256]int32
					for i := range p {
						p[i] = v
						if (i/period)%2 == 1 {
							p[i] = w
						}
					}
					if !check(p, "extreme") {
						return
					}
				}
			}
		}
		for pos := 0; pos < 256; pos++ {
			for _, v := range []int32{dilQ - 1, -(dilQ - 1), 1} {
				var p [256]int32
				p[pos] = v
				if !check(p, "spike") {
					return
				}
			}
		}
	}
	for t := 0; t < j.Int("n"); t++ {
		var p [256]int32
		kind := t % 6
		for i := range p {
			switch kind {
			case 0: // whole range (-q, q)
				p[i] = int32(rng.Intn(2*dilQ-1)) - (dilQ - 1)
			case 1: // within 8192 of q-1
				p[i] = dilQ - 1 - int32(rng.Intn(8192))
			case 2: // within 8192 of -(q-1)
				p[i] = -(dilQ - 1) + int32(rng.Intn(8192))
			case 3: // either end
				p[i] = dilQ - 1 - int32(rng.Intn(64))
				if rng.Intn(2) == 0 {
					p[i] = -p[i]
				}
			case 4: // what polyVecKReduce leaves: [-6283009, 6283008]
				p[i] = int32(rng.Intn(2*6283009)) - 6283009
			case 5: // standard representatives
				p[i] = int32(rng.Intn(dilQ))
			}
		}
		if !check(p, fmt.Sprintf("range_%d", kind)) {
			return
		}
	}
	r.Sample(map[string]interface{}{"fn": "ntt(a)[k] == a(root_k); invNTTToMont(x) in (-q,q) and == 2^32 * ntt^-1(x)", "polynomials": j.Int("n"), "extreme": j.Bool("extreme"), "input_range": "|a_i| < q"})
}

// polynomial generators within the bounds the signing code meets
func c12Poly(rng *rt.Rand, kind int) (p [256]int32) {
	for i := range p {
		switch kind {
		case 0: // eta
			p[i] = int32(rng.Intn(5)) - 2
		case 1: // |a| <= 2^19 (mask y / response z)
			p[i] = int32(rng.Intn(2*dilGamma1)) - dilGamma1 + 1
		case 2: // [0, 2^23) (t1 * 2^13)
			p[i] = int32(rng.Intn(1<<10)) << 13
		case 3: // [0,q)
			p[i] = int32(rng.Intn(dilQ))
		case 4: // t0: (-2^12, 2^12]
			p[i] = int32(rng.Intn(1<<13)) - (1 << 12) + 1
		case 5: // challenge-like: 60 entries +-1
			if rng.Intn(4) == 0 {
				p[i] = int32(rng.Intn(2))*2 - 1
			}
		}
	}
	return
}

func toRef(p *[256]int32) (o dilref.Poly) {
	for i := range p {
		o[i] = mod(int64(p[i]))
	}
	return
}

// c12Product: invNTTToMont(ntt(a) o ntt(b)) must equal the schoolbook negacyclic product.
func c12Product(a, b [256]int32) string {
	ha, hb := a, b
	dilithium.VerifNTT(&ha)
	dilithium.VerifNTT(&hb)
	var c [256]int32
	dilithium.VerifPolyPointWiseMontgomery(&c, &ha, &hb)
	dilithium.VerifInvNTTToMont(&c)
	ra, rb := toRef(&a), toRef(&b)
	want := dilref.Mul(&ra, &rb)
	for i := range c {
		if mod(int64(c[i])) != want[i] {
			return fmt.Sprintf("coefficient %d of invntt(ntt(a) o ntt(b)) is %d (mod q: %d), schoolbook product gives %d", i, c[i], mod(int64(c[i])), want[i])
		}
		if int64(c[i]) <= -dilQ || int64(c[i]) >= dilQ {
			return fmt.Sprintf("coefficient %d of the inverse transform is %d, outside (-q, q)", i, c[i])
		}
	}
	return ""
}

func c12NTT(j *rt.Job, rng *rt.Rand, r *rt.Rec) {
	check := func(a, b [256]int32, label string) bool {
		r.Eval(1)
		if why := c12Product(a, b); why != "" {
			r.Violate("C12/ntt-product", why+" ("+label+")", c12Case{Kind: "c12", Fn: "product", PA: a[:], PB: b[:]}, "", "")
			return false
		}
		r.Count("products_"+label, 1)
		r.Distinct(label, rt.Digest(i32bytes(a[:]), i32bytes(b[:])))
		return true
	}
	if j.Bool("extreme") {
		var ext [][256]int32
		fill := func(v int32) (p [256]int32) {
			for i := range p {
				p[i] = v
			}
			return
		}
		alt := func(v int32) (p [256]int32) {
			for i := range p {
				p[i] = v
				if i%2 == 1 {
					p[i] = -v
				}
			}
			return
		}
		for _, v := range []int32{2, dilGamma1, dilGamma1 - 1, dilQ - 1, (1 << 23) - (1 << 13), 1 << 12, 1} {
			ext = append(ext, fill(v), fill(-v), alt(v))
		}
		for _, pos := range []int{0, 1, 127, 128, 254, 255} {
			var p [256]int32
			p[pos] = 1
			ext = append(ext, p)
			p[pos] = dilQ - 1
			ext = append(ext, p)
		}
		for a := range ext {
			for b := range ext {
				// q-1-sized operands only against small ones (the code never multiplies two full-range polynomials
				// except matrix x ntt(vector), which has one factor sampled in the NTT domain — see matvec)
				if !check(ext[a], ext[b], "extreme") {
					return
				}
			}
		}
	}
	pairs := [][2]int{{5, 0}, {5, 4}, {5, 2}, {5, 1}, {0, 1}, {1, 1}, {3, 0}, {3, 1}, {3, 5}, {2, 5}, {3, 3}}
	for t := 0; t < j.Int("n"); t++ {
		pr := pairs[t%len(pairs)]
		if !check(c12Poly(rng, pr[0]), c12Poly(rng, pr[1]), fmt.Sprintf("kinds_%d_%d", pr[0], pr[1])) {
			return
		}
	}
	r.Sample(map[string]interface{}{"fn": "invNTTToMont(ntt(a) o ntt(b)) == a*b mod (X^256+1, q)", "products": j.Int("n"), "extreme": j.Bool("extreme")})
}

func i32bytes(p []int32) []byte {
	b := make([]byte, 4*len(p))
	for i, v := range p {
		b[4*i], b[4*i+1], b[4*i+2], b[4*i+3] = byte(v), byte(v>>8), byte(v>>16), byte(v>>24)
	}
	return b
}

// c12MatVec: the accumulated form used by key generation and signing, t = A*v.
func c12MatVec(j *rt.Job, rng *rt.Rand, r *rt.Rec) {
	for t := 0; t < j.Int("n"); t++ {
		rho := rng.Bytes(32)
		var mat [8][7][256]int32
		Ah := dilref.ExpandAhat(rho, nil)
		for i := 0; i < 8; i++ {
			for k := 0; k < 7; k++ {
				for n := 0; n < 256; n++ {
					mat[i][k][n] = int32(Ah[i][k][n])
				}
			}
		}
		A := dilref.ExpandA(rho)
		for _, kind := range []int{0, 1} {
			var v [7][256]int32
			var rv [7]dilref.Poly
			for k := 0; k < 7; k++ {
				v[k] = c12Poly(rng, kind)
				if t%4 == 3 { // all-extreme vector
					for n := range v[k] {
						v[k][n] = []int32{2, dilGamma1}[kind]
						if (n+t)%2 == 0 && kind == 0 {
							v[k][n] = -2
						}
					}
				}
				rv[k] = toRef(&v[k])
			}
			var out [8][256]int32
			dilithium.VerifMatrixVector(&out, &mat, &v)
			want := dilref.MatVec(A, &rv)
			r.Eval(1)
			for i := 0; i < 8; i++ {
				for n := 0; n < 256; n++ {
					if int64(out[i][n]) != want[i][n] {
						r.Violate("C12/matrix-vector", fmt.Sprintf("A*v row %d coefficient %d is %d, schoolbook arithmetic gives %d (vector kind %d)", i, n, out[i][n], want[i][n], kind),
							jobCase(j), "", "")
						return
					}
				}
			}
			r.Count("matrix_vector_products", 1)
			r.Distinct("matvec", rt.Hex(rho[:8]), kind, t)
		}
	}
	r.Sample(map[string]interface{}{"fn": "A*v via ntt/pointwise-acc/reduce/invntt/caddq == schoolbook", "cases": 2 * j.Int("n")})
}

func c12Replay(cs map[string]interface{}) (bool, string) {
	var c c12Case
	if err := rt.Decode(cs, &c); err != nil {
		return false, err.Error()
	}
	switch c.Fn {
	case "product":
		var a, b [256]int32
		copy(a[:], c.PA)
		copy(b[:], c.PB)
		why := c12Product(a, b)
		return why != "", why
	case "ntt-direct", "invntt-direct":
		var a [256]int32
		copy(a[:], c.PA)
		why := c12NTTDirect(a)
		if c.Fn == "invntt-direct" {
			why = c12InvNTTDirect(a)
		}
		return why != "", why
	case "polyChkNorm":
		var p [256]int32
		p[0] = int32(c.A)
		abs := dilref.CMod(c.A)
		if abs < 0 {
			abs = -abs
		}
		want := 0
		if abs >= c.B {
			want = 1
		}
		got := dilithium.VerifPolyChkNorm(&p, int32(c.B))
		return got != want, fmt.Sprintf("polyChkNorm(%d, bound %d) = %d, expected %d", c.A, c.B, got, want)
	}
	why := c12Scalar(c.Fn, c.A, c.B)
	if why == "" {
		return false, c.Fn + " equals its definition on this operand"
	}
	return true, why
}

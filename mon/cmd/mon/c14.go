package main

import (
	"bytes"
	"fmt"
	"os"
	"strings"

	"github.com/theQRL/go-qrllib/dilithium"
	"github.com/theQRL/go-qrllib/misc"
	"github.com/theQRL/go-qrllib/qrl"
	"github.com/theQRL/go-qrllib/xmss"

	"verifmon/rt"
)

// C14 — verification and decoding of untrusted bytes never crashes.
// Every call is classified: value / explicit refusal / runtime fault; the
// caller's buffers are compared before and after. The current case number is
// written to a side file before each call so that a process death or a hang can
// be attributed (and replayed) by the driver.

func init() {
	monitors["C14"] = &Monitor{Plan: c14Plan, Run: c14Run, Replay: c14Replay}
}

type c14In struct {
	EP  string // entry point
	W   uint32
	Msg []byte
	Sig []byte // signature / sealed message / address / public key for address functions
	PK  []byte
	Str string // mnemonic
	Cls string // input class, for the evidence
}

func c14Plan(tier string, seed uint64) (jobs []rt.Job) {
	q := tier == "quick"
	add := func(kind string, part, parts int, cost float64, race bool) {
		id := fmt.Sprintf("C14/%s/%d", kind, part)
		if race {
			id += "/race"
		}
		jobs = append(jobs, rt.Job{ID: id, Kind: kind, Cost: cost, Race: race,
			Args: map[string]interface{}{"part": part, "parts": parts, "thorough": !q, "watchdog": 600}})
	}
	kinds := []struct {
		k     string
		parts int
		cost  float64
	}{{"xmss-sizes", 8, 10}, {"xmss-desc", 8, 10}, {"xmss-addr", 2, 2}, {"dil-verify", 4, 6}, {"dil-open", 2, 4}, {"dil-addr", 1, 1}, {"mnemonic", 2, 4}}
	for _, kd := range kinds {
		parts := kd.parts
		if !q {
			parts *= 4
		}
		for p := 0; p < parts; p++ {
			add(kd.k, p, parts, kd.cost, false)
		}
		// the same lists under the -race build (checkptr enabled): a quarter of the parts in quick, all in thorough
		for p := 0; p < parts; p++ {
			if !q || p%4 == int(seed%4) || parts < 4 {
				add(kd.k, p, parts, kd.cost*4, true)
			}
		}
		// ... and one part with the scheduler told there are very many / exactly one processor
		// (nothing here may depend on how many there are)
		for _, gp := range []int{256, 1} {
			add(kd.k, int(seed)%parts, parts, kd.cost, false)
			jobs[len(jobs)-1].ID += fmt.Sprintf("/gomaxprocs=%d", gp)
			jobs[len(jobs)-1].Args["gomaxprocs"] = gp
		}
	}
	return
}

func wBase(w uint32) int {
	switch w {
	case 4:
		return 4 + 32 + 133*32
	case 256:
		return 4 + 32 + 34*32
	}
	return 2180
}

func fill(n int, v byte) []byte { return bytes.Repeat([]byte{v}, n) }

// c14Gen builds the job's complete case list deterministically from (kind, part, seed).
func c14Gen(j *rt.Job, seed uint64) (cases []c14In) {
	rng := rt.NewRand(seed, fmt.Sprintf("C14/%s", j.Kind)) // same stream for all parts; parts take slices of the list
	thorough := j.Bool("thorough")
	add := func(c c14In) { cases = append(cases, c) }
	content := func(n int, which int) []byte {
		switch which % 3 {
		case 0:
			return make([]byte, n)
		case 1:
			return fill(n, 0xFF)
		}
		return rng.Bytes(n)
	}
	// one honest XMSS triple (h=4, real key) for truncation / extension / index edits
	var hsig, hpk, hmsg []byte
	if strings.HasPrefix(j.Kind, "xmss") {
		c := XCfg{H: 4, HF: int(seed % 3), Seed: rt.Hex(rt.NewRand(seed, "C14/honest").Bytes(48))}
		k := c.newLib()
		p := k.GetPK()
		hpk, hmsg = p[:], []byte("honest message")
		hsig, _ = k.Sign(hmsg)
	}
	switch j.Kind {
	case "xmss-sizes":
		for _, w := range []uint32{16, 4, 256} {
			base := wBase(w)
			lens := []int{0, 1, 3, 4, 35, 36, base - 33, base - 32, base - 1, base, base + 1, base + 31}
			for k := 0; k <= 31; k++ {
				lens = append(lens, base+32*k-1, base+32*k, base+32*k+1)
			}
			max := base + 30*32
			lens = append(lens, max, max+1, max+32, max+33, 65536)
			for _, l := range lens {
				if l < 0 {
					continue
				}
				for ct := 0; ct < 3; ct++ {
					for _, pkKind := range []int{0, 1, 2, 3} {
						pk := content(67, pkKind)
						hgt := (l - base) / 32
						switch pkKind {
						case 3: // descriptor matching the size so that the deep path runs
							pk = rng.Bytes(67)
							pk[0] = byte(rng.Intn(3))
							pk[1] = byte(hgt / 2 & 0x0F)
						case 2:
							pk[0] &= 0x0F
						}
						eps := []string{"xmss.VerifyWithCustomWOTSParamW"}
						if w == 16 {
							eps = append(eps, "xmss.Verify")
						}
						for _, ep := range eps {
							add(c14In{EP: ep, W: w, Msg: content(rng.Intn(40), ct+1), Sig: content(l, ct), PK: pk, Cls: fmt.Sprintf("w=%d/len=base%+d", w, l-base)})
						}
					}
				}
			}
		}
		// honest signature truncated / extended / with hostile index, honest public key
		for cut := 0; cut <= len(hsig)+64; cut += 1 + rng.Intn(7) {
			s := append([]byte(nil), hsig...)
			if cut <= len(s) {
				s = s[:cut]
			} else {
				s = append(s, rng.Bytes(cut-len(s))...)
			}
			add(c14In{EP: "xmss.Verify", W: 16, Msg: hmsg, Sig: s, PK: hpk, Cls: "honest-truncated-extended"})
		}
		for _, idx := range []uint32{0xFFFFFFFF, 0x80000000, 16, 15, 1 << 30} {
			s := append([]byte(nil), hsig...)
			s[0], s[1], s[2], s[3] = byte(idx>>24), byte(idx>>16), byte(idx>>8), byte(idx)
			add(c14In{EP: "xmss.Verify", W: 16, Msg: hmsg, Sig: s, PK: hpk, Cls: "honest-hostile-index"})
			add(c14In{EP: "xmss.Verify", W: 16, Msg: nil, Sig: s, PK: hpk, Cls: "nil-message"})
		}
		add(c14In{EP: "xmss.Verify", W: 16, Msg: hmsg, Sig: nil, PK: hpk, Cls: "nil-signature"})
		// sizes that are admissible for ANOTHER w, with a descriptor matching the height that size names
		// under each of the three bases (a genuine default-w signature handed to a w=4 / w=256 verifier)
		for _, w := range []uint32{4, 16, 256} {
			add(c14In{EP: "xmss.VerifyWithCustomWOTSParamW", W: w, Msg: hmsg, Sig: hsig, PK: hpk, Cls: "honest-w16-signature-other-w"})
			for _, ow := range []uint32{4, 16, 256} {
				if ow == w {
					continue
				}
				for h := 2; h <= 30; h += 2 {
					l := wBase(ow) + 32*h
					for _, bw := range []uint32{4, 16, 256} {
						hh := (l - wBase(bw)) / 32
						pk := rng.Bytes(67)
						pk[0] = byte(rng.Intn(3))
						pk[1] = byte(hh / 2 & 0x0F)
						if h == 4 && ow == 16 && bw == 16 {
							pk = append([]byte(nil), hpk...)
						}
						add(c14In{EP: "xmss.VerifyWithCustomWOTSParamW", W: w, Msg: hmsg, Sig: content(l, h/2), PK: pk, Cls: fmt.Sprintf("w=%d/size-of-w=%d/desc-height-by-base-of-w=%d", w, ow, bw)})
					}
				}
			}
		}
		add(c14In{EP: "xmss.Verify", W: 16, Msg: rng.Bytes(1 << 20), Sig: hsig, PK: hpk, Cls: "1MiB-message"})
	case "xmss-desc":
		// descriptor byte 0 / byte 1 values against sizes whose height matches / does not match
		for _, w := range []uint32{16, 4, 256} {
			base := wBase(w)
			for _, h := range []int{4, 6, 10} {
				n := 4096
				if w == 16 && h == 4 || thorough {
					n = 65536
				}
				sig := content(base+32*h, 2)
				if w == 16 && h == 4 {
					sig = hsig
				}
				for t := 0; t < n; t++ {
					v := t
					if n != 65536 {
						v = rng.Intn(65536)
					}
					pk := rng.Bytes(67)
					if w == 16 && h == 4 {
						pk = append([]byte(nil), hpk...)
					}
					pk[0], pk[1] = byte(v>>8), byte(v)
					if t%5 == 0 {
						copy(pk[3:35], make([]byte, 32))
					}
					ep := "xmss.VerifyWithCustomWOTSParamW"
					if w == 16 && t%2 == 0 {
						ep = "xmss.Verify"
					}
					add(c14In{EP: ep, W: w, Msg: hmsg, Sig: sig, PK: pk, Cls: fmt.Sprintf("w=%d/h=%d/descriptor-sweep", w, h)})
				}
			}
		}
	case "xmss-addr":
		for v := 0; v < 65536; v++ {
			a := rng.Bytes(67)
			a[0], a[1] = byte(v>>8), byte(v)
			add(c14In{EP: "xmss.IsValidXMSSAddress", Sig: a[:20], Cls: "descriptor-sweep"})
			add(c14In{EP: "xmss.IsValidLegacyXMSSAddress", Sig: a[:39], Cls: "descriptor-sweep"})
			add(c14In{EP: "xmss.GetXMSSAddressFromPK", Sig: a, Cls: "descriptor-sweep"})
			add(c14In{EP: "xmss.GetLegacyXMSSAddressFromPK", Sig: a, Cls: "descriptor-sweep"})
		}
		for _, v := range []byte{0, 0xFF} {
			add(c14In{EP: "xmss.IsValidXMSSAddress", Sig: fill(20, v), Cls: "constant"})
			add(c14In{EP: "xmss.IsValidLegacyXMSSAddress", Sig: fill(39, v), Cls: "constant"})
			add(c14In{EP: "xmss.GetXMSSAddressFromPK", Sig: fill(67, v), Cls: "constant"})
			add(c14In{EP: "xmss.GetLegacyXMSSAddressFromPK", Sig: fill(67, v), Cls: "constant"})
		}
	case "dil-verify":
		d := dilLibKey(rt.NewRand(seed, "C14/dil").Seed48())
		pkA := d.GetPK()
		hm := []byte("honest")
		hs, _ := d.Sign(hm)
		pks := [][]byte{pkA[:], make([]byte, dilPKBytes), fill(dilPKBytes, 0xFF), rng.Bytes(dilPKBytes)}
		for row := 0; row < 8; row++ {
			for v := 0; v < 256; v++ {
				s := append([]byte(nil), hs[:]...)
				s[hintOff+75+row] = byte(v)
				add(c14In{EP: "dilithium.Verify", Msg: hm, Sig: s, PK: pks[0], Cls: "count-byte-sweep"})
				if v%16 == 0 {
					s2 := append([]byte(nil), s...)
					for k := row; k < 8; k++ {
						s2[hintOff+75+k] = byte(v)
					}
					copy(s2[hintOff:hintOff+75], fill(75, 255))
					add(c14In{EP: "dilithium.Verify", Msg: hm, Sig: s2, PK: pks[v/16%4], Cls: "count-bytes-with-positions-255"})
					s3 := append([]byte(nil), s2...)
					for k := 0; k < 75; k++ {
						s3[hintOff+k] = byte(k * 3)
					}
					add(c14In{EP: "dilithium.Verify", Msg: hm, Sig: s3, PK: pks[0], Cls: "count-bytes-with-ascending-positions"})
				}
			}
		}
		// hint sections from a grammar: monotone counts that may exceed omega (up to 255), positions strictly
		// increasing inside each row -- including, for counts beyond 75, the count bytes themselves -- so that an
		// input survives every ordering check and only the bound on the counts stands between it and the end of the buffer
		for t := 0; t < 600; t++ {
			s := append([]byte(nil), hs[:]...)
			hsec := s[hintOff:]
			switch t % 4 {
			case 0: // all 83 bytes strictly increasing from a random start with step 1..3
				step := 1 + rng.Intn(3)
				start := rng.Intn(256 - 83*step + 1)
				for k := 0; k < 83; k++ {
					hsec[k] = byte(start + k*step)
				}
			case 1: // as above but the first rows keep honest small counts
				step := 1 + rng.Intn(2)
				start := rng.Intn(256 - 83*step + 1)
				for k := 0; k < 83; k++ {
					hsec[k] = byte(start + k*step)
				}
				rows := rng.Intn(7)
				c := 0
				for k := 0; k < rows; k++ {
					c += rng.Intn(4)
					hsec[75+k] = byte(c)
				}
			case 2: // counts monotone, last ones beyond omega; positions ascending within rows
				c := 0
				for k := 0; k < 8; k++ {
					c += rng.Intn(40)
					if c > 255 {
						c = 255
					}
					hsec[75+k] = byte(c)
				}
				prev := 0
				for k := 0; k < 8; k++ {
					cnt := int(hsec[75+k])
					v := rng.Intn(8)
					for q := prev; q < cnt && q < 75; q++ {
						hsec[q] = byte(v)
						v += 1 + rng.Intn(3)
						if v > 255 {
							v = 255
						}
					}
					prev = cnt
				}
			case 3: // one count byte far beyond the buffer, everything before it honest
				hsec[75+rng.Intn(8)] = byte(76 + rng.Intn(180))
			}
			add(c14In{EP: "dilithium.Verify", Msg: hm, Sig: s, PK: pks[0], Cls: "hint-grammar"})
		}
		for t := 0; t < 1500; t++ {
			s := content(dilSigBytes, t)
			switch t % 6 {
			case 3: // z all-ones / extreme with valid-looking hints
				s = append([]byte(nil), hs[:]...)
				copy(s[32:hintOff], fill(7*640, []byte{0x00, 0xFF, 0x55}[t%3]))
			case 4:
				s = append([]byte(nil), hs[:]...)
				copy(s[hintOff:], rng.Bytes(83))
			case 5:
				s = append([]byte(nil), hs[:]...)
				for k := 75; k < 83; k++ {
					s[hintOff+k] = byte(rng.Intn(256))
				}
			}
			msg := content(rng.Intn(64), t)
			if t%50 == 0 {
				msg = nil
			}
			add(c14In{EP: "dilithium.Verify", Msg: msg, Sig: s, PK: pks[t%4], Cls: "random-and-edited"})
		}
	case "dil-open":
		d := dilLibKey(rt.NewRand(seed, "C14/dil").Seed48())
		pkA := d.GetPK()
		sealed, _ := d.Seal([]byte("sealed message body"))
		for l := 0; l <= dilSigBytes+2; l++ {
			add(c14In{EP: "dilithium.Open", Sig: content(l, l), PK: pkA[:], Cls: "every-length"})
		}
		for l := 0; l <= len(sealed)+3; l++ {
			s := append([]byte(nil), sealed...)
			if l <= len(s) {
				s = s[:l]
			} else {
				s = append(s, rng.Bytes(l-len(s))...)
			}
			if l%7 == 0 || l > dilSigBytes-3 {
				add(c14In{EP: "dilithium.Open", Sig: s, PK: pkA[:], Cls: "honest-truncated-extended"})
			}
		}
		add(c14In{EP: "dilithium.Open", Sig: nil, PK: pkA[:], Cls: "nil"})
		add(c14In{EP: "dilithium.Open", Sig: rng.Bytes(65536), PK: rng.Bytes(dilPKBytes), Cls: "64KiB"})
		add(c14In{EP: "dilithium.Open", Sig: append(append([]byte(nil), sealed[:dilSigBytes]...), rng.Bytes(1<<20)...), PK: pkA[:], Cls: "1MiB-message"})
		for row := 0; row < 8; row++ {
			for v := 0; v < 256; v += 3 {
				s := append([]byte(nil), sealed...)
				s[hintOff+75+row] = byte(v)
				add(c14In{EP: "dilithium.Open", Sig: s, PK: pkA[:], Cls: "count-byte-sweep"})
			}
		}
		for t := 0; t < 200; t++ { // strictly increasing hint sections (see dil-verify)
			s := append([]byte(nil), sealed...)
			step := 1 + rng.Intn(3)
			start := rng.Intn(256 - 83*step + 1)
			for k := 0; k < 83; k++ {
				s[hintOff+k] = byte(start + k*step)
			}
			add(c14In{EP: "dilithium.Open", Sig: s, PK: pkA[:], Cls: "hint-grammar"})
		}
	case "dil-addr":
		for t := 0; t < 4000; t++ {
			a := content(20, t)
			if t < 256 {
				a[0] = byte(t)
			}
			add(c14In{EP: "dilithium.IsValidDilithiumAddress", Sig: a, Cls: "first-byte-sweep-and-random"})
			if t%10 == 0 {
				add(c14In{EP: "dilithium.GetDilithiumAddressFromPK", Sig: content(dilPKBytes, t/10), Cls: "constant-and-random"})
			}
		}
	case "mnemonic":
		words := qrl.WordList[:]
		phrase := func(n int) string {
			var w []string
			for k := 0; k < n; k++ {
				w = append(w, words[rng.Intn(len(words))])
			}
			return strings.Join(w, " ")
		}
		var strs []string
		for n := 0; n <= 70; n++ {
			strs = append(strs, phrase(n))
		}
		strs = append(strs, "", " ", "  ", strings.Repeat(" ", 31), strings.Repeat(" ", 33), strings.Repeat(" ", 1000),
			strings.Repeat(words[0]+" ", 1<<17), strings.Repeat(words[4095], 1<<16), string(rng.Bytes(200)), "\xff\xfe\xfd",
			strings.Repeat("\x00", 32), phrase(32)+"\x00", strings.ToUpper(phrase(32)), phrase(31)+" ", " "+phrase(31), phrase(32)+"\n",
			strings.Repeat("zzzz ", 31)+"zzzz", strings.Repeat(words[1]+"\t", 32), phrase(1000), phrase(4096))
		for t := 0; t < 300; t++ {
			p := phrase(32 + 2*(t%2))
			b := []byte(p)
			switch t % 5 {
			case 0:
				b[rng.Intn(len(b))] = byte(rng.Intn(256))
			case 1:
				b = append(b[:rng.Intn(len(b))], b[rng.Intn(len(b)):]...)
			case 2:
				b = append(b, rng.Bytes(rng.Intn(20))...)
			}
			strs = append(strs, string(b))
		}
		// valid words joined by other separators than one blank, in every mix (the number of blanks and the
		// number of words then disagree)
		seps := []string{" ", "\t", "\n", "\r\n", "  ", " \t", "\v", "\u00a0"}
		for t := 0; t < 400; t++ {
			n := []int{2, 3, 4, 31, 32, 33, 34, 35, 36, 48, 64}[t%11]
			var sb strings.Builder
			for k := 0; k < n; k++ {
				if k > 0 {
					if rng.Intn(4) == 0 {
						sb.WriteString(seps[1+rng.Intn(len(seps)-1)])
					} else {
						sb.WriteString(" ")
					}
				}
				sb.WriteString(words[rng.Intn(len(words))])
			}
			if t%7 == 0 {
				sb.WriteString(seps[rng.Intn(len(seps))])
			}
			strs = append(strs, sb.String())
		}
		for _, s := range strs {
			add(c14In{EP: "misc.MnemonicToSeedBin", Str: s, Cls: "phrases"})
			add(c14In{EP: "misc.MnemonicToExtendedSeedBin", Str: s, Cls: "phrases"})
		}
	}
	return
}

// c14Exec performs one call; returns outcome and a violation description ("" if fine).
func c14Exec(c *c14In) (o rt.Outcome, why string) {
	msg0 := append([]byte(nil), c.Msg...)
	sig0 := append([]byte(nil), c.Sig...)
	pk0 := append([]byte(nil), c.PK...)
	nilMsg, nilSig := c.Msg == nil, c.Sig == nil
	// the slices handed to the library have spare capacity filled with canary bytes: nothing may be written there
	const canary = "CANARYCANARYCANA"
	withCanary := func(b []byte) ([]byte, []byte) {
		if b == nil {
			return nil, nil
		}
		full := make([]byte, len(b)+len(canary))
		copy(full, b)
		copy(full[len(b):], canary)
		return full[:len(b):len(full)], full
	}
	msg, msgFull := withCanary(c.Msg)
	sig, sigFull := withCanary(c.Sig)
	defer func() {
		if why == "" && ((msgFull != nil && string(msgFull[len(msg):]) != canary) || (sigFull != nil && string(sigFull[len(sig):]) != canary)) {
			why = c.EP + " wrote into the spare capacity behind a caller's slice"
		}
	}()
	noPanicAllowed := false
	switch c.EP {
	case "xmss.Verify":
		var pk [67]byte
		copy(pk[:], c.PK)
		o = rt.Call(func() { xmss.Verify(msg, sig, pk) })
	case "xmss.VerifyWithCustomWOTSParamW":
		var pk [67]byte
		copy(pk[:], c.PK)
		o = rt.Call(func() { xmss.VerifyWithCustomWOTSParamW(msg, sig, pk, c.W) })
	case "xmss.IsValidXMSSAddress":
		var a [20]byte
		copy(a[:], sig)
		o = rt.Call(func() { xmss.IsValidXMSSAddress(a) })
	case "xmss.IsValidLegacyXMSSAddress":
		var a [39]byte
		copy(a[:], sig)
		o = rt.Call(func() { xmss.IsValidLegacyXMSSAddress(a) })
	case "xmss.GetXMSSAddressFromPK":
		var a [67]byte
		copy(a[:], sig)
		o = rt.Call(func() { xmss.GetXMSSAddressFromPK(a) })
	case "xmss.GetLegacyXMSSAddressFromPK":
		var a [67]byte
		copy(a[:], sig)
		o = rt.Call(func() { xmss.GetLegacyXMSSAddressFromPK(a) })
	case "dilithium.Verify":
		noPanicAllowed = true
		var s [dilSigBytes]byte
		var pk [dilPKBytes]byte
		copy(s[:], sig)
		copy(pk[:], c.PK)
		o = rt.Call(func() { dilithium.Verify(msg, s, &pk) })
		if !bytes.Equal(pk[:len(pk0)], pk0[:minInt(len(pk0), dilPKBytes)]) {
			why = "dilithium.Verify modified the caller's public key"
		}
	case "dilithium.Open":
		noPanicAllowed = true
		var pk [dilPKBytes]byte
		copy(pk[:], c.PK)
		var out []byte
		o = rt.Call(func() { out = dilithium.Open(sig, &pk) })
		if !bytes.Equal(pk[:len(pk0)], pk0[:minInt(len(pk0), dilPKBytes)]) {
			why = "dilithium.Open modified the caller's public key"
		}
		if o.Kind == rt.Value && out != nil && len(sig) < dilSigBytes {
			why = "dilithium.Open returned a message for an input shorter than a signature"
		}
	case "dilithium.IsValidDilithiumAddress":
		var a [20]byte
		copy(a[:], sig)
		o = rt.Call(func() { dilithium.IsValidDilithiumAddress(a) })
	case "dilithium.GetDilithiumAddressFromPK":
		var pk [dilPKBytes]byte
		copy(pk[:], sig)
		o = rt.Call(func() { dilithium.GetDilithiumAddressFromPK(pk) })
	case "misc.MnemonicToSeedBin":
		o = rt.Call(func() { misc.MnemonicToSeedBin(c.Str) })
	case "misc.MnemonicToExtendedSeedBin":
		o = rt.Call(func() { misc.MnemonicToExtendedSeedBin(c.Str) })
	}
	if why == "" && o.Kind == rt.Fault {
		why = c.EP + " ended in a runtime fault: " + o.Text
	}
	if why == "" && noPanicAllowed && o.Kind != rt.Value {
		why = c.EP + " must never refuse, but panicked: " + o.String()
	}
	if why == "" && (!bytes.Equal(msg, msg0) || !bytes.Equal(sig, sig0) || !bytes.Equal(c.PK, pk0) || (nilMsg != (c.Msg == nil)) || (nilSig != (c.Sig == nil))) {
		why = c.EP + " modified the caller's buffers"
	}
	return
}

var c14CurFile *os.File

func c14Mark(jobID string, n int) {
	if c14CurFile == nil {
		if p := os.Getenv("VERIF_CUR"); p != "" {
			c14CurFile, _ = os.OpenFile(p, os.O_CREATE|os.O_WRONLY|os.O_TRUNC, 0o644)
		}
		if c14CurFile == nil {
			return
		}
	}
	c14CurFile.WriteAt([]byte(fmt.Sprintf("%-12d", n)), 0)
}

type c14Case struct {
	Kind string  `json:"kind"`
	Job  *rt.Job `json:"job"`
	Seed uint64  `json:"seed"`
	N    int     `json:"n"`
	EP   string  `json:"ep"`
	Cls  string  `json:"class"`
	Lens string  `json:"lengths"`
}

func c14Run(j *rt.Job, seed uint64, r *rt.Rec) {
	cases := c14Gen(j, seed)
	part, parts := j.Int("part"), j.Int("parts")
	if parts < 1 {
		parts = 1
	}
	build := "plain"
	if j.Race {
		build = "race+checkptr"
	}
	// this part's cases, in a seeded shuffled order (so that calls with different parameters precede each
	// other in different orders in different parts and runs)
	var mine []int
	for i := range cases {
		if i%parts == part {
			mine = append(mine, i)
		}
	}
	srng := rt.NewRand(seed, j.ID+"/order")
	for a := len(mine) - 1; a > 0; a-- {
		b := srng.Intn(a + 1)
		mine[a], mine[b] = mine[b], mine[a]
	}
	n := 0
	for _, i := range mine {
		c := &cases[i]
		c14Mark(j.ID, i)
		o, why := c14Exec(c)
		r.Eval(1)
		n++
		r.Count(c.EP+"/"+o.Kind, 1)
		r.Count("build_"+build, 1)
		if o.Kind == rt.Refusal {
			r.Observe("refusal_texts", o.Text)
		}
		r.Distinct(c.EP, c.W, c.Cls, len(c.Sig), len(c.PK) > 0 && len(c.PK) >= 2 && c.PK[0]>>4 == 0, o.Kind, len(c.Str), i)
		if why != "" {
			r.Violate("C14/"+c.EP+"/"+o.Kind, fmt.Sprintf("%s [%s, build %s, sig/input %d bytes, msg %d bytes, w=%d]", why, c.Cls, build, len(c.Sig), len(c.Msg), c.W),
				c14Case{"c14n", j, seed, i, c.EP, c.Cls, fmt.Sprintf("sig=%d msg=%d pk=%d str=%d", len(c.Sig), len(c.Msg), len(c.PK), len(c.Str))}, "value or explicit refusal; buffers untouched", o.String())
			if r.NViol() >= 8 {
				return
			}
		}
		if n%997 == 1 {
			r.Sample(map[string]interface{}{"entry_point": c.EP, "w": c.W, "class": c.Cls, "input_len": len(c.Sig), "msg_len": len(c.Msg), "phrase_len": len(c.Str), "outcome": o.String(), "build": build})
		}
	}
	r.Count("buffers_compared", int64(n))
}

func c14Replay(cs map[string]interface{}) (bool, string) {
	var c c14Case
	if err := rt.Decode(cs, &c); err != nil {
		return false, err.Error()
	}
	cases := c14Gen(c.Job, c.Seed)
	if c.N < 0 || c.N >= len(cases) {
		return false, "case number out of range"
	}
	in := &cases[c.N]
	fmt.Printf("replaying case %d: %s class %s (sig %d bytes, msg %d bytes, w=%d)\n", c.N, in.EP, in.Cls, len(in.Sig), len(in.Msg), in.W)
	os.Stdout.Sync()
	o, why := c14Exec(in)
	if why != "" {
		return true, why
	}
	return false, "outcome " + o.String() + ", buffers untouched"
}

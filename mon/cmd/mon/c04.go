package main

import (
	"fmt"

	"github.com/theQRL/go-qrllib/xmss"

	"verifmon/ref/xmssref"
	"verifmon/rt"
)

// C04 — XMSS Verify accepts exactly what the scheme defines as valid.
// Differential oracle: xmssref.Verify. Mutations of a valid triple in an
// interpreted position are expected to be "not accepted" outright.

func init() {
	monitors["C04"] = &Monitor{Plan: c04Plan, Run: c04Run, Replay: c04Replay}
}

func c04Plan(tier string, seed uint64) (jobs []rt.Job) {
	rng := rt.NewRand(seed, "C04/plan")
	q := tier == "quick"
	hs := []int{4, 6, 8}
	if !q {
		hs = []int{4, 6, 8, 10}
	}
	for _, h := range hs {
		for hf := 0; hf < 3; hf++ {
			s := rng.Seed48()
			c := XCfg{H: h, HF: hf, Seed: rt.Hex(s[:])}
			n := 1 << uint(h)
			idxs := []int{0, 1, n - 1, 2 + rng.Intn(n-3)}
			if q && h == 6 {
				idxs = []int{0, n - 1}
			}
			if q && h == 8 {
				idxs = []int{2 + rng.Intn(n-3)}
			}
			for t, idx := range idxs {
				a := c.args()
				a["idx"] = idx
				a["full"] = t == 0
				a["allbits"] = !q && h <= 6 && t == 1
				cost := 8.0
				if !q {
					cost = 20
				}
				jobs = append(jobs, rt.Job{ID: fmt.Sprintf("C04/%s/idx=%d", c, idx), Kind: "triple", Cost: cost, Args: a})
			}
		}
	}
	// self-consistent triples for every height 4..30 and large indices, built by the reference without a tree
	ns := 3
	if !q {
		ns = 64
	}
	for b := 0; b < ns; b++ {
		jobs = append(jobs, rt.Job{ID: fmt.Sprintf("C04/sparse/%d", b), Kind: "sparse", Cost: 4, Args: map[string]interface{}{"batch": b}})
	}
	nr := 4
	if !q {
		nr = 64
	}
	for b := 0; b < nr; b++ {
		jobs = append(jobs, rt.Job{ID: fmt.Sprintf("C04/random/%d", b), Kind: "random", Cost: 3, Args: map[string]interface{}{"n": 600}})
	}
	return
}

type c04Case struct {
	Kind  string `json:"kind"`
	Class string `json:"class"`
	Msg   string `json:"msg"`
	Sig   string `json:"sig"`
	PK    string `json:"pk"`
	Want  string `json:"want"` // "reject" | "ref" | "accept"
}

type c04Ctx struct {
	r   *rt.Rec
	rng *rt.Rand
}

// judge presents one triple to the library (and, where the oracle is differential, to the reference).
func (x *c04Ctx) judge(class string, msg, sig, pk []byte, want string, useRef bool) bool {
	r := x.r
	r.Eval(1)
	r.Count("presented_"+class, 1)
	var pkA [67]byte
	copy(pkA[:], pk)
	acc, out := libVerify(msg, sig, pkA)
	cs := func() c04Case { return c04Case{"c04", class, rt.Hex(msg), rt.Hex(sig), rt.Hex(pk), want} }
	if out.Kind == rt.Fault {
		r.Violate("C04/fault/"+class, "xmss.Verify ended in a runtime fault: "+out.Text, cs(), "", out.String())
		return false
	}
	if out.Kind == rt.Refusal {
		r.Observe("refusal_texts", out.Text)
		r.Count("refused_"+class, 1)
	}
	// Verify == VerifyWithCustomWOTSParamW(.., 16)
	if useRef || want != "reject" || x.rng.Intn(16) == 0 {
		var acc16 bool
		o16 := rt.Call(func() { acc16 = xmss.VerifyWithCustomWOTSParamW(msg, sig, pkA, 16) })
		if o16.Kind != rt.Value {
			acc16 = false
		}
		if acc16 != acc || o16.Kind != out.Kind {
			r.Violate("C04/w16-differs", "Verify and VerifyWithCustomWOTSParamW(w=16) disagree ("+class+")", cs(), fmt.Sprint(acc, out), fmt.Sprint(acc16, o16))
			return false
		}
		r.Count("w16_agreements", 1)
	}
	refAcc := false
	if useRef || want != "reject" {
		refAcc = xmssref.Verify(msg, sig, pk)
		r.Count("reference_verifications", 1)
	}
	switch want {
	case "accept":
		if !acc || !refAcc {
			r.Violate("C04/valid-rejected", fmt.Sprintf("a valid triple is not accepted (library %v, reference %v; %s)", acc, refAcc, class), cs(), "accepted", fmt.Sprint(acc))
			return false
		}
	case "reject":
		if useRef && refAcc {
			r.Inconclusive("mutation class " + class + " produced a triple the reference accepts")
			return false
		}
		if acc {
			r.Violate("C04/accepted/"+class, "library accepts a triple that must not be accepted ("+class+")", cs(), "not accepted", "accepted")
			return false
		}
		r.Count("not_accepted_"+class, 1)
	case "ref":
		if acc != refAcc {
			r.Violate("C04/differs/"+class, fmt.Sprintf("library accepts=%v, specification-level verifier accepts=%v (%s; descriptor %02x %02x %02x)", acc, refAcc, class, pk[0], pk[1], pk[2]), cs(), fmt.Sprint(refAcc), fmt.Sprint(acc))
			return false
		}
		if acc {
			r.Count("accepted_by_both_"+class, 1)
		} else {
			r.Count("not_accepted_by_both_"+class, 1)
		}
	}
	if want != "accept" {
		r.Distinct(class, rt.Digest(msg, sig, pk))
	}
	return true
}

func c04Run(j *rt.Job, seed uint64, r *rt.Rec) {
	rng := rt.NewRand(seed, j.ID)
	x := &c04Ctx{r, rng}
	if j.Kind == "random" {
		c04Random(j, x)
		return
	}
	if j.Kind == "sparse" {
		c04Sparse(j, x)
		return
	}
	c := cfgFromJob(j)
	idx := uint32(j.Int("idx"))
	n := uint32(1) << uint(c.H)
	// every valid triple in this monitor is made by the REFERENCE signer (full tree), so that the verdicts
	// depend on the library's verifier only; one library-made signature is judged in addition
	refKey := c.newRef()
	pk := refKey.PK(c.desc())
	msg := msgFor(c, idx, "c04")
	if len(msg) == 0 {
		msg = []byte("c04")
	}
	sig := refKey.Sign(idx, msg)
	if lk := c.newLib(); true {
		if idx > 0 {
			lk.SetIndex(idx)
		}
		lpk := lk.GetPK()
		if lsig, err := lk.Sign(msg); err == nil {
			if !x.judge("library-made-triple", msg, lsig, lpk[:], "ref", true) {
				return
			}
		}
	}
	r.Observe("configs", fmt.Sprintf("h=%d/%s/idx=%d", c.H, hashNames[c.HF], idx))
	if !x.judge("valid", msg, sig, pk, "accept", true) {
		return
	}
	mutS := func() []byte { return append([]byte(nil), sig...) }
	mutP := func() []byte { return append([]byte(nil), pk...) }

	// 1. every single-bit flip of the public key (uninterpreted bits: the reference decides)
	pkStep := 1
	if !j.Bool("full") {
		pkStep = 4
	}
	for bit := rng.Intn(pkStep); bit < 67*8; bit += pkStep {
		if !x.judge("pk-bitflip", msg, sig, flipBit(pk, bit), "ref", true) {
			return
		}
	}
	// 2. signature bit flips
	if j.Bool("allbits") {
		for bit := 0; bit < len(sig)*8; bit++ {
			if !x.judge("sig-bitflip-all", msg, flipBit(sig, bit), pk, "reject", bit%97 == 0) {
				return
			}
		}
		r.Observe("exhaustive", fmt.Sprintf("all %d single-bit flips of the signature of %s idx=%d", len(sig)*8, c, idx))
	} else {
		byStep := 1
		if !j.Bool("full") {
			byStep = 8
		}
		for by := rng.Intn(byStep); by < len(sig); by += byStep {
			if !x.judge("sig-bitflip-per-byte", msg, flipBit(sig, by*8+rng.Intn(8)), pk, "reject", by%61 == 0) {
				return
			}
		}
		regions := [][2]int{{0, 4}, {4, 36}, {36, 68}, {36 + 66*32, 36 + 67*32}, {36 + 64*32, 36 + 65*32}, {36 + 65*32, 36 + 66*32}}
		for l := 0; l < c.H; l++ {
			regions = append(regions, [2]int{2180 + 32*l - 1, 2180 + 32*l + 1}, [2]int{2180 + 32*l + 31, 2180 + 32*l + 32})
		}
		for _, rg := range regions {
			for bit := rg[0] * 8; bit < rg[1]*8; bit++ {
				if !x.judge("sig-bitflip-region", msg, flipBit(sig, bit), pk, "reject", bit%53 == 0) {
					return
				}
			}
		}
	}
	// 3. message edits
	short := []byte("abc")
	ssig := refKey.Sign(0, short)
	for bit := 0; bit < len(short)*8; bit++ {
		if !x.judge("msg-bitflip", flipBit(short, bit), ssig, pk, "reject", true) {
			return
		}
	}
	for bit := 0; bit < len(msg)*8 && bit < 256; bit++ {
		if !x.judge("msg-bitflip", flipBit(msg, bit), sig, pk, "reject", bit%8 == 0) {
			return
		}
	}
	for _, m2 := range [][]byte{msg[:len(msg)-1], append(append([]byte(nil), msg...), 0), {}, append([]byte{0}, msg...)} {
		if !x.judge("msg-truncate-extend", m2, sig, pk, "reject", true) {
			return
		}
	}
	// a long message (beyond 64 KiB): valid, and not valid with its last byte changed
	if j.Bool("full") {
		long := rt.NewRand(uint64(c.H), "c04long/"+c.Seed).Bytes(65537 + c.HF*40000)
		lsig := refKey.Sign(0, long)
		if !x.judge("valid-long-message", long, lsig, pk, "accept", true) || !x.judge("long-message-last-byte", flipBit(long, len(long)*8-1), lsig, pk, "reject", true) {
			return
		}
		// lengths that are exact multiples of 64 KiB: every block must matter
		for _, l := range []int{65536, 131072} {
			m := rt.NewRand(uint64(l), "c04block/"+c.Seed).Bytes(l)
			sg := refKey.Sign(1, m)
			if !x.judge("valid-long-message", m, sg, pk, "accept", true) {
				return
			}
			for _, bit := range []int{0, 8*l - 1, 8 * (l - 65536), 8*(l-65536) + 7, 8 * (l - 1)} {
				if !x.judge("long-message-bitflip", flipBit(m, bit), sg, pk, "reject", true) {
					return
				}
			}
			if !x.judge("long-message-truncated", m[:l-65536], sg, pk, "reject", true) || !x.judge("long-message-truncated", m[:l-1], sg, pk, "reject", true) {
				return
			}
		}
	}
	// 4. substitutions
	other := XCfg{H: c.H, HF: c.HF, Seed: rt.Hex(rng.Bytes(48))}
	ko := other.newRef()
	opk := ko.PK(other.desc())
	osig := ko.Sign(idx, msg)
	if !x.judge("other-key-signature", msg, osig, pk, "reject", true) || !x.judge("other-key-pk", msg, sig, opk, "reject", true) {
		return
	}
	// another index of the same key: as is, and with the index field rewritten to match
	oi := (idx + 1) % n
	sig2 := refKey.Sign(oi, msg)
	s := append([]byte(nil), sig2...)
	copy(s[:4], sig[:4])
	s3 := mutS()
	copy(s3[:4], sig2[:4])
	s4 := mutS()
	copy(s4[2180:], sig2[2180:])
	for _, cand := range [][]byte{s, s3, s4} {
		if !x.judge("other-index-mix", msg, cand, pk, "reject", true) {
			return
		}
	}
	if !x.judge("other-index-valid", msg, sig2, pk, "accept", true) {
		return
	}
	// whole 32-byte blocks appended to / removed from a genuine signature (its size then names another height)
	for _, k := range []int{1, 2, 3, 4, 5, 6, 8, 12, 26 - c.H, 27 - c.H} {
		for _, fillv := range []int{0, 1} {
			ext := append(mutS(), make([]byte, 32*k)...)
			if fillv == 1 {
				copy(ext[len(sig):], rng.Bytes(32*k))
			}
			if len(ext) > 2180+30*32 {
				continue
			}
			if !x.judge("sig-blocks-appended", msg, ext, pk, "ref", true) {
				return
			}
			// ... and with the descriptor height rewritten to the height the new size names (when that is even)
			if (c.H+k)%2 == 0 {
				p := mutP()
				p[1] = p[1]&0xF0 | byte((c.H+k)/2)
				if !x.judge("sig-blocks-appended-desc-rewritten", msg, ext, p, "ref", true) {
					return
				}
			}
		}
	}
	for _, k := range []int{1, 2, c.H - 2, c.H} {
		if k <= 0 || k > c.H {
			continue
		}
		cut := sig[:len(sig)-32*k]
		if !x.judge("sig-blocks-removed", msg, cut, pk, "ref", true) {
			return
		}
		if (c.H-k)%2 == 0 {
			p := mutP()
			p[1] = p[1]&0xF0 | byte((c.H-k)/2)
			if !x.judge("sig-blocks-removed-desc-rewritten", msg, cut, p, "ref", true) {
				return
			}
		}
	}
	// the boundary between signature and message moved: the same concatenated bytes, split elsewhere
	if len(msg) >= 1 {
		for _, k := range []int{1, len(msg) / 2, len(msg), 32, 64} {
			if k <= 0 || k > len(msg) {
				continue
			}
			if !x.judge("boundary-shift-sig-longer", msg[k:], append(mutS(), msg[:k]...), pk, "ref", true) {
				return
			}
		}
	}
	for _, k := range []int{1, 32, 64, 33} {
		if !x.judge("boundary-shift-sig-shorter", append(append([]byte(nil), sig[len(sig)-k:]...), msg...), sig[:len(sig)-k], pk, "ref", true) {
			return
		}
	}
	// message with zero bytes appended up to / stripped back to a 32-byte boundary
	for _, pad := range []int{1, 31 - len(msg)%32, 32 - len(msg)%32, 64} {
		if pad <= 0 {
			continue
		}
		if !x.judge("msg-zero-padded", append(append([]byte(nil), msg...), make([]byte, pad)...), sig, pk, "reject", true) {
			return
		}
	}
	// index field beyond the tree
	for _, v := range []uint32{n, n + idx, 1 << 31, 0xFFFFFFFF, idx + n*2} {
		s5 := mutS()
		s5[0], s5[1], s5[2], s5[3] = byte(v>>24), byte(v>>16), byte(v>>8), byte(v)
		if !x.judge("index-beyond-tree", msg, s5, pk, "ref", true) {
			return
		}
	}
	// another height (same seed): size mismatch both ways; another hash function (same seed, same height)
	for _, h2 := range []int{4, 6, 8} {
		if h2 == c.H {
			continue
		}
		c2 := XCfg{H: h2, HF: c.HF, Seed: c.Seed}
		kh := c2.newRef()
		hpk := kh.PK(c2.desc())
		hsig := kh.Sign(0, msg)
		if !x.judge("other-height", msg, hsig, pk, "ref", true) || !x.judge("other-height", msg, sig, hpk, "ref", true) {
			return
		}
		// descriptor height rewritten to match the foreign signature's size
		p2 := mutP()
		p2[1] = p2[1]&0xF0 | byte(h2/2)
		if !x.judge("other-height-desc-rewritten", msg, hsig, p2, "ref", true) {
			return
		}
		if h2 > 4 {
			break
		}
	}
	c3 := XCfg{H: c.H, HF: (c.HF + 1) % 3, Seed: c.Seed}
	kf := c3.newRef()
	fpk := kf.PK(c3.desc())
	fsig := kf.Sign(0, msg)
	p3 := mutP()
	p3[0] = p3[0]&0xF0 | byte(c3.HF)
	if !x.judge("other-hash", msg, fsig, pk, "reject", true) || !x.judge("other-hash", msg, sig, fpk, "reject", true) || !x.judge("other-hash-desc-rewritten", msg, sig, p3, "reject", true) {
		return
	}
	// 5. hostile descriptors x roots a verifier that "computes nothing" would arrive at
	roots := [][]byte{pk[3:35], make([]byte, 32), bytesOf(0xFF, 32), sig[36:68], sig[2180 : 2180+32], sig[4:36], pk[35:67]}
	for hn := 0; hn < 16; hn++ {
		for _, hgt := range c04Heights(j.Bool("full"), c.H) {
			for _, st := range c04SigTypes(j.Bool("full")) {
				for ri, root := range roots {
					for _, b2 := range []byte{0, byte(rng.Intn(256))} {
						if b2 != 0 && !(hn < 3 && ri == 0) {
							continue
						}
						p := mutP()
						p[0] = byte(st<<4 | hn)
						p[1] = byte(hgt)
						p[2] = b2
						copy(p[3:35], root)
						class := "hostile-descriptor"
						if hn > 2 {
							class = "unsupported-hash-id"
						}
						if !x.judge(class, msg, sig, p, "ref", true) {
							return
						}
					}
				}
			}
		}
	}
	// address-format nibble (uninterpreted by verification): reference decides
	for af := 1; af < 16; af++ {
		p := mutP()
		p[1] = p[1]&0x0F | byte(af<<4)
		if !x.judge("addr-format-nibble", msg, sig, p, "ref", true) {
			return
		}
	}
	// unsupported hash id with signatures of all-zero / random bytes of the right size
	for _, hn := range []int{3, 4, 7, 15} {
		for _, content := range [][]byte{make([]byte, len(sig)), rng.Bytes(len(sig))} {
			p := mutP()
			p[0] = byte(hn)
			copy(p[3:35], make([]byte, 32))
			if !x.judge("unsupported-hash-id", []byte("anything"), content, p, "ref", true) {
				return
			}
		}
	}
	// canary: the valid triple must still be accepted after everything the verifier has seen
	if !x.judge("valid-after-history", msg, sig, pk, "accept", true) {
		return
	}
	r.Sample(map[string]interface{}{"cfg": c.String(), "index": idx, "msg_len": len(msg), "classes": "pk flips, sig flips, msg edits, substitutions, hostile descriptors"})
}

func bytesOf(v byte, n int) []byte {
	b := make([]byte, n)
	for i := range b {
		b[i] = v
	}
	return b
}

func c04Heights(full bool, h int) []int {
	if full {
		return []int{0, 1, 2, 3, 4, 5, 6, 7, 8, 9, 10, 11, 12, 13, 14, 15}
	}
	return []int{h / 2, 0, 1, 15}
}
func c04SigTypes(full bool) []int {
	if full {
		return []int{0, 1, 2, 3, 4, 5, 6, 7, 8, 9, 10, 11, 12, 13, 14, 15}
	}
	return []int{0, 1}
}

// c04Random: random bytes of every admissible length with plausible descriptors.
func c04Random(j *rt.Job, x *c04Ctx) {
	rng := x.rng
	for t := 0; t < j.Int("n"); t++ {
		hn := 2 + rng.Intn(14)
		sig := rng.Bytes(2180 + 32*hn)
		pk := rng.Bytes(67)
		switch t % 4 {
		case 0:
			pk[0], pk[1], pk[2] = byte(rng.Intn(3)), byte(hn), 0
		case 1:
			pk[0], pk[1] = byte(rng.Intn(16)), byte(hn)
		case 2:
			pk[0], pk[1] = byte(rng.Intn(16)), byte(rng.Intn(256))
		}
		if t%8 == 1 {
			copy(pk[3:35], make([]byte, 32))
		}
		if !x.judge("random-bytes", rng.Bytes(rng.Intn(64)), sig, pk, "ref", true) {
			return
		}
	}
	x.r.Sample(map[string]interface{}{"random_triples": j.Int("n")})
}

func c04Replay(cs map[string]interface{}) (bool, string) {
	var c c04Case
	if err := rt.Decode(cs, &c); err != nil {
		return false, err.Error()
	}
	msg, sig, pk := rt.UnHex(c.Msg), rt.UnHex(c.Sig), rt.UnHex(c.PK)
	var pkA [67]byte
	copy(pkA[:], pk)
	acc, out := libVerify(msg, sig, pkA)
	refAcc := xmssref.Verify(msg, sig, pk)
	d := fmt.Sprintf("class %s, descriptor %02x %02x %02x: library accepts=%v (%s), reference accepts=%v", c.Class, pk[0], pk[1], pk[2], acc, out, refAcc)
	if out.Kind == rt.Fault {
		return true, d
	}
	if c.Want == "accept" {
		return !acc, d
	}
	return acc != refAcc, d
}

// c04Sparse: for every supported height (incl. those no key can be generated for) and indices deep in
// the tree, the reference builds a triple that is valid by construction (real leaf, arbitrary
// authentication path, root = what they hash up to). The library must accept it and must not accept
// its neighbours (index +-1, one authentication node changed, message changed).
func c04Sparse(j *rt.Job, x *c04Ctx) {
	rng, r := x.rng, x.r
	// heights the scheme does not support (0, 2, and odd ones squeezed into the size): a triple that would be
	// consistent for such a tree must not be accepted
	for _, h := range []int{2, 1, 3, 0} {
		for hf := 0; hf < 3; hf++ {
			sec := xmssref.Expand(rng.Bytes(48))
			for idx := uint32(0); idx < uint32(1)<<uint(h); idx++ {
				msg := rng.Bytes(rng.Intn(40))
				sig, pk := sec.SparseTriple(xmssref.Hash(hf), h, idx, msg, rng.Bytes(32*h), [3]byte{byte(hf), byte(h / 2), 0})
				if !x.judge("sparse-unsupported-height", msg, sig, pk, "ref", true) {
					return
				}
				pk2 := append([]byte(nil), pk...)
				pk2[1] = byte((h + 1) / 2)
				if !x.judge("sparse-unsupported-height", msg, sig, pk2, "ref", true) {
					return
				}
			}
		}
	}
	for h := 4; h <= 30; h += 2 {
		hf := (h/2 + j.Int("batch")) % 3
		sec := xmssref.Expand(rng.Bytes(48))
		n := uint64(1) << uint(h)
		idxs := []uint32{uint32(n - 1), uint32(n / 2), uint32(rng.U64() % n)}
		// an index field beyond the tree: the recomputation uses the index as given (the reference decides)
		for _, big := range []uint64{n, n + 1 + rng.U64()%n, 2*n + 3, 1 << 31, 1<<32 - 1} {
			if big < 1<<32 {
				msg := rng.Bytes(10)
				sig, pk := sec.SparseTriple(xmssref.Hash(hf), h, uint32(big), msg, rng.Bytes(32*h), [3]byte{byte(hf), byte(h / 2), 0})
				if !x.judge("sparse-index-beyond-tree", msg, sig, pk, "ref", true) {
					return
				}
				// the same signature with the index reduced modulo 2^h must not be accepted (nor the other way round)
				s2 := append([]byte(nil), sig...)
				v := uint32(big) & uint32(n-1)
				s2[0], s2[1], s2[2], s2[3] = byte(v>>24), byte(v>>16), byte(v>>8), byte(v)
				if !x.judge("sparse-index-beyond-tree", msg, s2, pk, "ref", true) {
					return
				}
			}
		}
		if h >= 10 {
			idxs = append(idxs, 255, 256, 65535&uint32(n-1), uint32(n-1)&0xFFFFFF00)
		}
		for _, idx := range idxs[:minInt(len(idxs), 2+j.Int("batch")%3)] {
			msg := rng.Bytes(rng.Intn(80))
			auth := rng.Bytes(32 * h)
			sig, pk := sec.SparseTriple(xmssref.Hash(hf), h, idx, msg, auth, [3]byte{byte(hf), byte(h / 2), 0})
			if !x.judge("sparse-valid", msg, sig, pk, "accept", true) {
				return
			}
			r.Observe("sparse_heights", fmt.Sprintf("h=%02d/%s", h, hashNames[hf]))
			r.Distinct("sparse", h, hf, idx)
			s2 := append([]byte(nil), sig...)
			v := idx ^ 1
			s2[0], s2[1], s2[2], s2[3] = byte(v>>24), byte(v>>16), byte(v>>8), byte(v)
			lvl := rng.Intn(h)
			s3 := flipBit(sig, (2180+32*lvl)*8+rng.Intn(256))
			s4 := append([]byte(nil), sig...)
			v4 := idx ^ (1 << uint(h-1))
			s4[0], s4[1], s4[2], s4[3] = byte(v4>>24), byte(v4>>16), byte(v4>>8), byte(v4)
			for _, cand := range [][]byte{s2, s3, s4} {
				if !x.judge("sparse-neighbour", msg, cand, pk, "reject", true) {
					return
				}
			}
			if !x.judge("sparse-neighbour", append(append([]byte(nil), msg...), 1), sig, pk, "reject", false) {
				return
			}
		}
	}
	r.Sample(map[string]interface{}{"sparse_triples": "heights 4..30, indices 2^h-1, 2^(h-1), random, byte-boundary values"})
}

package main

import (
	"encoding/json"
	"fmt"

	"github.com/theQRL/go-qrllib/dilithium"

	"verifmon/ref/dilref"
	"verifmon/rt"
)

func jsonUnmarshal(s string, v interface{}) error { return json.Unmarshal([]byte(s), v) }

type c07SCase struct {
	Kind  string `json:"kind"`
	Fn    string `json:"fn"`
	ALen  int    `json:"alen,omitempty"`
	Buf   string `json:"buf,omitempty"`
	Seed  string `json:"seed,omitempty"`
	Nonce int    `json:"nonce,omitempty"`
}

// definitions (what the specification says the samplers do on a given byte string)
func specRejUniform(alen int, buf []byte) (out []int64) {
	for pos := 0; len(out) < alen && pos+3 <= len(buf); pos += 3 {
		t := (int64(buf[pos]) | int64(buf[pos+1])<<8 | int64(buf[pos+2])<<16) & 0x7FFFFF
		if t < dilQ {
			out = append(out, t)
		}
	}
	return
}
func specRejEta(alen int, buf []byte) (out []int64) {
	for pos := 0; len(out) < alen && pos < len(buf); pos++ {
		for _, t := range []int64{int64(buf[pos] & 15), int64(buf[pos] >> 4)} {
			if t < 15 && len(out) < alen {
				out = append(out, 2-t%5)
			}
		}
	}
	return
}

// c07CheckSampler runs one sampler case; returns a description of the disagreement or "".
func c07CheckSampler(c c07SCase) string {
	switch c.Fn {
	case "rejUniform", "rejEta":
		buf := rt.UnHex(c.Buf)
		a := make([]int32, c.ALen)
		for i := range a {
			a[i] = -77777 // sentinel: untouched output
		}
		var n uint32
		var want []int64
		bc := append([]byte(nil), buf...)
		if c.Fn == "rejUniform" {
			n = dilithium.VerifRejUniform(a, bc)
			want = specRejUniform(c.ALen, buf)
		} else {
			n = dilithium.VerifRejEta(a, bc)
			want = specRejEta(c.ALen, buf)
		}
		if int(n) != len(want) {
			return fmt.Sprintf("%s accepted %d coefficients, definition accepts %d", c.Fn, n, len(want))
		}
		for i := range want {
			if int64(a[i]) != want[i] {
				return fmt.Sprintf("%s coefficient %d is %d, definition gives %d", c.Fn, i, a[i], want[i])
			}
		}
		for i := len(want); i < len(a); i++ {
			if a[i] != -77777 {
				return fmt.Sprintf("%s wrote beyond the %d accepted coefficients", c.Fn, len(want))
			}
		}
		if string(bc) != string(buf) {
			return c.Fn + " modified its input buffer"
		}
	case "polyUniform":
		var s [32]byte
		copy(s[:], rt.UnHex(c.Seed))
		var a [256]int32
		if err := dilithium.VerifPolyUniform(&a, &s, uint16(c.Nonce)); err != nil {
			return "polyUniform error " + err.Error()
		}
		w := dilref.SampleUniform(s[:], uint16(c.Nonce), nil)
		for i := range a {
			if int64(a[i]) != w[i] {
				return fmt.Sprintf("polyUniform coefficient %d is %d, specification gives %d", i, a[i], w[i])
			}
		}
	case "polyUniformEta":
		var s [64]byte
		copy(s[:], rt.UnHex(c.Seed))
		var a [256]int32
		if err := dilithium.VerifPolyUniformEta(&a, &s, uint16(c.Nonce)); err != nil {
			return "polyUniformEta error " + err.Error()
		}
		w, _ := dilref.SampleEta(s[:], uint16(c.Nonce))
		for i := range a {
			if int64(a[i]) != dilref.CMod(w[i]) {
				return fmt.Sprintf("polyUniformEta coefficient %d is %d, specification gives %d", i, a[i], dilref.CMod(w[i]))
			}
		}
	case "polyUniformGamma1":
		var s [64]byte
		copy(s[:], rt.UnHex(c.Seed))
		var a [256]int32
		dilithium.VerifPolyUniformGamma1(&a, s, uint16(c.Nonce))
		w := dilref.SampleMask(s[:], uint16(c.Nonce))
		for i := range a {
			if int64(a[i]) != dilref.CMod(w[i]) && !(a[i] == dilGamma1 && dilref.CMod(w[i]) == dilGamma1) {
				return fmt.Sprintf("polyUniformGamma1 coefficient %d is %d, specification gives %d", i, a[i], dilref.CMod(w[i]))
			}
		}
	case "polyChallenge":
		s := rt.UnHex(c.Seed)
		var a [256]int32
		if err := dilithium.VerifPolyChallenge(&a, append([]byte(nil), s...)); err != nil {
			return "polyChallenge error " + err.Error()
		}
		w := dilref.SampleInBall(s)
		nz := 0
		for i := range a {
			if int64(a[i]) != dilref.CMod(w[i]) {
				return fmt.Sprintf("polyChallenge coefficient %d is %d, specification gives %d", i, a[i], dilref.CMod(w[i]))
			}
			if a[i] != 0 {
				nz++
			}
		}
		if nz != 60 {
			return fmt.Sprintf("challenge has %d non-zero coefficients", nz)
		}
	}
	return ""
}

func c07Sampler(r *rt.Rec, c c07SCase) bool {
	c.Kind = "c07sampler"
	r.Eval(1)
	r.Count("sampler_"+c.Fn, 1)
	if d := c07CheckSampler(c); d != "" {
		r.Violate("C07/sampler/"+c.Fn, d, c, "", "")
		return false
	}
	r.Distinct(c.Fn, c.ALen, c.Buf, c.Seed, c.Nonce)
	return true
}

func le3(v uint32) []byte { return []byte{byte(v), byte(v >> 8), byte(v >> 16)} }

func c07SamplersEdge(r *rt.Rec) {
	// rejUniform: boundary candidates at every position of short buffers, all buffer-length residues
	cands := []uint32{0, 1, dilQ - 2, dilQ - 1, dilQ, dilQ + 1, 0x7FFFFF, 0x800000, 0x800000 | (dilQ - 1), 0x800000 | dilQ, 0xFFFFFF, 0xFFE000, 0xFFE001}
	for _, c1 := range cands {
		for _, c2 := range cands {
			for tail := 0; tail < 3; tail++ {
				for _, alen := range []int{0, 1, 2, 3, 5} {
					buf := append(append(le3(c1), le3(c2)...), le3(12345)...)
					buf = append(buf, []byte{0xAA, 0xBB}[:tail]...)
					if !c07Sampler(r, c07SCase{Fn: "rejUniform", ALen: alen, Buf: rt.Hex(buf)}) {
						return
					}
				}
			}
		}
	}
	r.Count("rejUniform_boundary_candidates", int64(len(cands)*len(cands)))
	// rejEta: every byte value, at the output boundary (one slot left) and with room
	for b := 0; b < 256; b++ {
		for _, alen := range []int{0, 1, 2, 3, 4} {
			for _, pre := range [][]byte{nil, {0x00}, {0xFF}, {0x0F}, {0xF0}} {
				buf := append(append([]byte(nil), pre...), byte(b), 0x21)
				if !c07Sampler(r, c07SCase{Fn: "rejEta", ALen: alen, Buf: rt.Hex(buf)}) {
					return
				}
			}
		}
	}
	// a full-size buffer whose last accepted nibble lands exactly on coefficient 255 / 256
	for _, fill := range []byte{0x00, 0x0F, 0xF0, 0xEE, 0xFE, 0xEF} {
		for _, l := range []int{127, 128, 129, 136} {
			buf := make([]byte, l)
			for i := range buf {
				buf[i] = fill
			}
			if !c07Sampler(r, c07SCase{Fn: "rejEta", ALen: 256, Buf: rt.Hex(buf)}) {
				return
			}
		}
	}
	r.Sample(map[string]interface{}{"sampler": "rejUniform", "candidates": cands})
}

func c07SamplersRandom(j *rt.Job, rng *rt.Rand, r *rt.Rec) {
	for t := 0; t < j.Int("n"); t++ {
		s32, s64 := rng.Bytes(32), rng.Bytes(64)
		nonces := []int{0, 1, 6, 7, 14, 255, 256, 0x0706, 0xFFFF, rng.Intn(65536)}
		for _, fn := range []string{"polyUniform", "polyUniformEta", "polyUniformGamma1", "polyChallenge"} {
			seed := s64
			if fn == "polyUniform" || fn == "polyChallenge" {
				seed = s32
			}
			for _, nc := range nonces[:4+rng.Intn(6)] {
				if fn == "polyChallenge" && nc != 0 {
					continue
				}
				if !c07Sampler(r, c07SCase{Fn: fn, Seed: rt.Hex(seed), Nonce: nc}) {
					return
				}
			}
		}
		// random rejUniform / rejEta buffers with dense boundary values
		buf := rng.Bytes(3 * (1 + rng.Intn(300)))
		for k := 0; k+3 <= len(buf); k += 3 {
			if rng.Intn(6) == 0 {
				copy(buf[k:], le3([]uint32{dilQ - 1, dilQ, dilQ + 1, 0x7FFFFF, 0xFFE001}[rng.Intn(5)]))
			}
		}
		buf = append(buf, rng.Bytes(rng.Intn(3))...)
		if !c07Sampler(r, c07SCase{Fn: "rejUniform", ALen: rng.Intn(300), Buf: rt.Hex(buf)}) {
			return
		}
		eb := rng.Bytes(1 + rng.Intn(200))
		for k := range eb {
			if rng.Intn(5) == 0 {
				eb[k] = []byte{0xFF, 0xF0, 0x0F, 0xEE, 0xFE}[rng.Intn(5)]
			}
		}
		if !c07Sampler(r, c07SCase{Fn: "rejEta", ALen: rng.Intn(300), Buf: rt.Hex(eb)}) {
			return
		}
	}
	r.Sample(map[string]interface{}{"sampler_batch": j.Int("batch"), "cases_per_batch": j.Int("n")})
}

func c07ReplaySampler(cs map[string]interface{}) (bool, string) {
	var c c07SCase
	if err := rt.Decode(cs, &c); err != nil {
		return false, err.Error()
	}
	d := c07CheckSampler(c)
	if d == "" {
		return false, "sampler agrees with its definition"
	}
	return true, d
}

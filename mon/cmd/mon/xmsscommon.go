package main

import (
	"bytes"
	"crypto/sha256"
	"encoding/binary"
	"fmt"

	"github.com/theQRL/go-qrllib/common"
	"github.com/theQRL/go-qrllib/xmss"

	"verifmon/ref/xmssref"
	"verifmon/rt"
)

var hashNames = []string{"SHA2_256", "SHAKE_128", "SHAKE_256"}

// fixed, seed-independent key seeds used by every run in addition to PRNG ones
func fixedSeeds() [][48]byte {
	var zero, ff, inc [48]byte
	for i := range ff {
		ff[i] = 0xFF
		inc[i] = byte(i)
	}
	return [][48]byte{zero, ff, inc}
}

// seedsFor returns n key seeds: the fixed ones first, then PRNG ones.
func seedsFor(rng *rt.Rand, n int) [][48]byte {
	out := fixedSeeds()
	if n < len(out) {
		return out[:n]
	}
	for len(out) < n {
		out = append(out, rng.Seed48())
	}
	return out
}

type XCfg struct {
	H    int    `json:"h"`
	HF   int    `json:"hf"`
	Seed string `json:"seed"`
	Seam bool   `json:"seam,omitempty"`
}

func (c XCfg) String() string {
	return fmt.Sprintf("h=%d/%s/seed=%s", c.H, hashNames[c.HF], c.Seed[:8])
}
func (c XCfg) seed() (s [48]byte) {
	copy(s[:], rt.UnHex(c.Seed))
	return
}
func (c XCfg) args() map[string]interface{} {
	return map[string]interface{}{"h": c.H, "hf": c.HF, "seed": c.Seed, "seam": c.Seam}
}
func cfgFromJob(j *rt.Job) XCfg {
	return XCfg{H: j.Int("h"), HF: j.Int("hf"), Seed: j.Str("seed"), Seam: j.Bool("seam")}
}

func (c XCfg) newLib() *xmss.XMSS {
	return xmss.NewXMSSFromSeed(c.seed(), uint8(c.H), xmss.HashFunction(c.HF), common.SHA256_2X)
}
func (c XCfg) desc() [3]byte { return [3]byte{byte(c.HF), byte(c.H / 2), 0} }

// fake leaves for the leaf seam: leaf(idx) = SHA-256(tag || idx)
func fakeLeafBytes(tag []byte, idx uint32) []byte {
	var b [4]byte
	binary.BigEndian.PutUint32(b[:], idx)
	s := sha256.Sum256(append(append([]byte("verif-leaf"), tag...), b[:]...))
	return s[:]
}

// seamOn installs the process-wide leaf override; the returned func removes it.
func seamOn(tag []byte) func() {
	xmss.VerifSetLeafOverride(func(leaf []uint8, idx uint32) { copy(leaf, fakeLeafBytes(tag, idx)) })
	return func() { xmss.VerifSetLeafOverride(nil) }
}

// newRef builds the full-tree reference key (fake leaves if cfg.Seam).
func (c XCfg) newRef() *xmssref.Key {
	s := c.seed()
	if c.Seam {
		return xmssref.KeyGen(s[:], c.H, xmssref.Hash(c.HF), func(idx uint32) []byte { return fakeLeafBytes(s[:], idx) })
	}
	return xmssref.KeyGen(s[:], c.H, xmssref.Hash(c.HF), nil)
}

// seam wraps f with the override installed when cfg.Seam.
func (c XCfg) seam(f func()) {
	if c.Seam {
		s := c.seed()
		off := seamOn(s[:])
		defer off()
	}
	f()
}

var msgLens = []int{0, 1, 31, 32, 33, 64, 1000, 7, 135, 136, 137}

// msgFor: deterministic message for (cfg, index, salt).
func msgFor(c XCfg, i uint32, salt string) []byte {
	r := rt.NewRand(uint64(i), "msg/"+c.Seed+"/"+salt)
	return r.Bytes(msgLens[int(i)%len(msgLens)])
}

func sigIndex(sig []byte) uint32 { return binary.BigEndian.Uint32(sig[:4]) }

// sigDiff names the first differing field of two signatures.
func sigDiff(a, b []byte) string {
	if len(a) != len(b) {
		return fmt.Sprintf("length %d vs %d", len(a), len(b))
	}
	if !bytes.Equal(a[:4], b[:4]) {
		return "index field"
	}
	if !bytes.Equal(a[4:36], b[4:36]) {
		return "randomiser R"
	}
	for i := 0; i < 67; i++ {
		if !bytes.Equal(a[36+32*i:36+32*(i+1)], b[36+32*i:36+32*(i+1)]) {
			return fmt.Sprintf("WOTS block %d", i)
		}
	}
	for l := 0; 2180+32*(l+1) <= len(a); l++ {
		if !bytes.Equal(a[2180+32*l:2180+32*(l+1)], b[2180+32*l:2180+32*(l+1)]) {
			return fmt.Sprintf("authentication node level %d", l)
		}
	}
	return ""
}

// libVerify: acceptance at the API boundary (a refusal counts as not accepted).
func libVerify(msg, sig []byte, pk [67]byte) (acc bool, out rt.Outcome) {
	out = rt.Call(func() { acc = xmss.Verify(msg, sig, pk) })
	if out.Kind != rt.Value {
		acc = false
	}
	return
}

// XOp: one operation of a history on one key object.
type XOp struct {
	Op  string `json:"op"`            // "sign" | "set"
	Arg uint32 `json:"arg,omitempty"` // SetIndex argument
	Msg string `json:"msg,omitempty"` // hex message for sign
}

// reach brings a fresh key to index i the given way ("sign": i signatures, "jump": one SetIndex).
func reach(c XCfg, k *xmss.XMSS, i uint32, way string) {
	switch way {
	case "sign":
		for j := uint32(0); j < i; j++ {
			k.Sign(msgFor(c, j, "reach"))
		}
	default:
		if i > 0 {
			k.SetIndex(i)
		}
	}
}

func tau(idx uint32, h int) int {
	for i := 0; i < h; i++ {
		if (idx>>uint(i))&1 == 0 {
			return i
		}
	}
	return h
}

// XCase: a self-contained, replayable "signature at the end of a history" case.
// Path entries are replayed on a fresh key in order: a plain value p means
// SetIndex(p); a value with bit 31 set means "Sign(msgFor(cfg, currentIndex, Salt))".
// Way "sign"/"jump" are shorthands for Idx signatures / one SetIndex(Idx).
type XCase struct {
	Kind string   `json:"kind"`
	Cfg  XCfg     `json:"cfg"`
	Way  string   `json:"way"`
	Path []uint32 `json:"path,omitempty"`
	Idx  uint32   `json:"idx"`
	Msg  string   `json:"msg,omitempty"`
	Salt string   `json:"salt,omitempty"`
	From uint32   `json:"from,omitempty"`
}

const signMark = uint32(1) << 31

// refuseMark: a SetIndex call that is expected to be refused (argument in the low 30 bits, 2^30 added back for 'beyond')
const refuseMark = uint32(1) << 30

// reachCase rebuilds the key and replays the case's history up to (not including) its final operation.
func reachCase(c XCase) *xmss.XMSS {
	k := c.Cfg.newLib()
	switch c.Way {
	case "sign":
		for j := uint32(0); j < c.Idx; j++ {
			k.Sign(msgFor(c.Cfg, j, c.Salt))
		}
	case "jump":
		if c.Idx > 0 {
			k.SetIndex(c.Idx)
		}
	case "step":
		for j := uint32(1); j <= c.Idx; j++ {
			k.SetIndex(j)
		}
	case "step64": // SetIndex stepping with a real Sign at every index == 63 mod 64
		for j := uint32(0); j < c.Idx; j++ {
			if j > 0 {
				k.SetIndex(j)
			}
			if j%64 == 63 {
				k.Sign(msgFor(c.Cfg, j, c.Salt))
			}
		}
		if c.Idx > 0 {
			k.SetIndex(c.Idx)
		}
	case "windows": // signatures in 1024-leaf windows around 0, n/4, n/2, 3n/4 and the end
		n := uint32(1) << uint(c.Cfg.H)
		windowsWalk(n, c.Idx, func(i uint32, jumped bool) bool {
			if jumped {
				k.SetIndex(i)
			}
			if i < c.Idx {
				k.Sign(msgFor(c.Cfg, i, c.Salt))
			}
			return true
		})
	case "jump2":
		if c.From > 0 {
			k.SetIndex(c.From)
		}
		k.SetIndex(c.Idx)
	case "path":
		for _, p := range c.Path {
			switch {
			case p&signMark != 0:
				k.Sign(msgFor(c.Cfg, k.GetIndex(), c.Salt))
			case p&refuseMark != 0:
				arg := p &^ refuseMark
				rt.Call(func() { k.SetIndex(arg) })
			default:
				k.SetIndex(p)
			}
		}
	}
	return k
}

// jumpDelta draws a forward jump length for a walk at cur in a tree of n leaves.
func jumpDelta(rng *rt.Rand, cur, n uint32) uint32 {
	room := n - 1 - cur
	if room == 0 {
		return 0
	}
	var d uint32
	switch rng.Intn(6) {
	case 0:
		d = 0
	case 1:
		d = 1
	case 2:
		d = 2
	case 3:
		d = 1 << uint(rng.Intn(12))
	case 4: // to the next multiple of 2^k (minus 0/1)
		k := uint32(1) << uint(1+rng.Intn(10))
		d = k - cur%k - uint32(rng.Intn(2))
	default:
		d = uint32(rng.Intn(int(room))) + 1
	}
	if d > room {
		d = room
	}
	return d
}

// windowsWalk visits indices 0..upto in the "windows" pattern: consecutive
// except that position 512 of every quarter jumps ahead to 512 before the next
// quarter boundary. visit returns false to stop.
func windowsWalk(n, upto uint32, visit func(i uint32, jumped bool) bool) {
	q4 := n / 4
	for i := uint32(0); i <= upto && i < n; i++ {
		jumped := false
		if q4 > 1024 && i < n-1024 && i%q4 == 512 {
			i += q4 - 1024
			jumped = true
			if i > upto {
				return
			}
		}
		if !visit(i, jumped) {
			return
		}
	}
}

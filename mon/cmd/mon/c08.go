package main

import (
	"bytes"
	"fmt"

	"github.com/theQRL/go-qrllib/misc"
	"github.com/theQRL/go-qrllib/xmss"

	"verifmon/rt"
)

// C08 — a key rebuilt from its seed and index continues identically.
// The "fault" is discarding the object at index i (every i is enumerated); the
// rebuilt object must have the identical complete signer state and identical
// future signatures, whichever constructor and whichever way of reaching i.

func init() {
	monitors["C08"] = &Monitor{Plan: c08Plan, Run: c08Run, Replay: c08Replay}
}

var c08Ctors = []string{"seed", "ext", "mnem"}

func c08Plan(tier string, seed uint64) (jobs []rt.Job) {
	rng := rt.NewRand(seed, "C08/plan")
	q := tier == "quick"
	add := func(c XCfg, mode string, lo, hi int, cost float64) {
		a := c.args()
		a["mode"], a["lo"], a["hi"] = mode, lo, hi
		jobs = append(jobs, rt.Job{ID: fmt.Sprintf("C08/%s/%s/%d-%d", c, mode, lo, hi), Kind: "c08", Cost: cost, Args: a})
	}
	for hf := 0; hf < 3; hf++ {
		s4, s6 := rng.Seed48(), rng.Seed48()
		c4 := XCfg{H: 4, HF: hf, Seed: rt.Hex(s4[:])}
		add(c4, "real", 0, 16, 4)
		c6 := XCfg{H: 6, HF: hf, Seed: rt.Hex(s6[:])}
		for lo := 0; lo < 64; lo += 4 {
			hi := lo + 3
			if hi == 63 {
				hi = 64
			}
			add(c6, "real", lo, hi, 8)
		}
		if !q {
			s8 := rng.Seed48()
			c8 := XCfg{H: 8, HF: hf, Seed: rt.Hex(s8[:])}
			for lo := 0; lo < 256; lo += 8 {
				hi := lo + 7
				if hi == 255 {
					hi = 256
				}
				add(c8, "real", lo, hi, 40)
			}
		}
		// seam: every crash index by complete-state equality
		maxAll := 10
		if !q {
			maxAll = 12
		}
		for h := 4; h <= maxAll; h += 2 {
			s := rng.Seed48()
			n := 1 << uint(h)
			parts := 1
			if h >= 10 {
				parts = 8
			}
			if h >= 12 {
				parts = 32
			}
			for p := 0; p < parts; p++ {
				add(XCfg{H: h, HF: hf, Seed: rt.Hex(s[:]), Seam: true}, "seam-all", p*n/parts, (p+1)*n/parts-1+((p+1)/parts), float64(n)*float64(n)/float64(parts)*0.00002+1)
			}
		}
		tall := []int{12, 14, 16}
		if !q {
			tall = []int{14, 16, 18, 20}
		}
		for _, h := range tall {
			s := rng.Seed48()
			cnt := map[int]int{14: 40, 16: 40, 18: 16, 20: 6}[h]
			if q {
				cnt = map[int]int{12: 24, 14: 12, 16: 5}[h]
			}
			add(XCfg{H: h, HF: hf, Seed: rt.Hex(s[:]), Seam: true}, "seam-sample", 0, cnt, float64(cnt)*float64(uint(1)<<uint(h))*0.00006+5)
			jobs[len(jobs)-1].Args["watchdog"] = 7200
		}
	}
	return
}

type c08Case struct {
	Kind string   `json:"kind"`
	Cfg  XCfg     `json:"cfg"`
	Ctor string   `json:"ctor"`
	Idx  uint32   `json:"idx"`
	Path []uint32 `json:"path"` // how the rebuilt object reaches Idx (SetIndex targets / signMark)
}

func c08Build(c XCfg, orig *xmss.XMSS, ctor string) *xmss.XMSS {
	switch ctor {
	case "ext":
		return xmss.NewXMSSFromExtendedSeed(orig.GetExtendedSeed())
	case "mnem":
		return xmss.NewXMSSFromExtendedSeed(misc.MnemonicToExtendedSeedBin(orig.GetMnemonic()))
	}
	return c.newLib()
}

// c08Path draws a way of reaching idx from 0: kind 0 one jump, 1 several jumps, 2 jumps mixed with signatures.
func c08Path(rng *rt.Rand, idx uint32, kind int) []uint32 {
	if idx == 0 {
		return nil
	}
	switch kind {
	case 0:
		return []uint32{idx}
	case 1:
		parts := 2 + rng.Intn(4)
		var p []uint32
		cur := uint32(0)
		for t := 0; t < parts-1 && cur < idx; t++ {
			cur += uint32(rng.Intn(int(idx-cur) + 1))
			p = append(p, cur)
		}
		return append(p, idx)
	default:
		var p []uint32
		cur := uint32(0)
		for cur < idx {
			if rng.Intn(3) == 0 || idx-cur == 1 {
				p = append(p, signMark)
				cur++
			} else {
				cur += 1 + uint32(rng.Intn(int(idx-cur)))
				p = append(p, cur)
			}
			if len(p) > 12 && cur < idx {
				p = append(p, idx)
				cur = idx
			}
		}
		return p
	}
}

func c08Walk(c XCfg, k *xmss.XMSS, path []uint32) {
	for _, p := range path {
		if p&signMark != 0 {
			k.Sign(msgFor(c, k.GetIndex(), "c08way"))
		} else {
			k.SetIndex(p)
		}
	}
}

func c08Run(j *rt.Job, seed uint64, r *rt.Rec) {
	c := cfgFromJob(j)
	c.seam(func() { c08Do(c, j, seed, r) })
}

func c08Do(c XCfg, j *rt.Job, seed uint64, r *rt.Rec) {
	mode := j.Str("mode")
	rng := rt.NewRand(seed, j.ID)
	n := uint32(1) << uint(c.H)
	lo, hi := uint32(j.Int("lo")), uint32(j.Int("hi"))
	r.Observe("configs", fmt.Sprintf("h=%d/%s/%s", c.H, hashNames[c.HF], mode))

	orig := c.newLib()
	key0 := xmss.VerifClone(orig)
	pk := orig.GetPK()

	compareState := func(i uint32, want []byte, rebuilt *xmss.XMSS, cs c08Case) bool {
		r.Eval(1)
		got := xmss.VerifSnapshot(rebuilt)
		if rebuilt.GetPK() != pk {
			r.Violate("C08/pk", fmt.Sprintf("rebuilt key (%s) has a different public key (%s)", cs.Ctor, c), cs, "", "")
			return false
		}
		if !bytes.Equal(got, want) {
			r.Violate(fmt.Sprintf("C08/state/h=%d", c.H), fmt.Sprintf("signer state at index %d differs between the original (reached by signing) and the key rebuilt via %s and path %v (%s)", i, cs.Ctor, fmtPath(cs.Path), c), cs, rt.Digest(want), rt.Digest(got))
			return false
		}
		r.Count("states_equal", 1)
		if i > 0 {
			r.Distinct(c.H, c.HF, c.Seed, i, cs.Ctor, fmtPath(cs.Path))
		}
		return true
	}

	switch mode {
	case "real":
		// original signs its whole life; snapshots and signatures are kept
		snaps := make([][]byte, n+1)
		sigs := make([][]byte, n)
		for i := uint32(0); i < n; i++ {
			if i%3 == 1 {
				// calls the key must refuse (beyond the tree / rewind) happen in the original's life too
				arg := n + uint32(rng.Intn(3))
				if i%2 == 1 && i > 0 {
					arg = uint32(rng.Intn(int(i)))
				}
				rt.Call(func() { orig.SetIndex(arg) })
				r.Count("refused_calls_in_original_life", 1)
			}
			snaps[i] = xmss.VerifSnapshot(orig)
			s, err := orig.Sign(msgFor(c, i, "c08"))
			if err != nil {
				r.Inconclusive("original failed to sign")
				return
			}
			sigs[i] = s
		}
		snaps[n] = xmss.VerifSnapshot(orig)
		for i := lo; i <= hi && i <= n; i++ {
			if i == n {
				// exhausted: the original produces nothing more; a rebuilt key cannot be moved to 2^h either
				o1 := rt.Call(func() {
					s, err := orig.Sign([]byte("x"))
					if err == nil && s != nil {
						panic("signature after exhaustion")
					}
				})
				rb := c.newLib()
				o2 := rt.Call(func() { rb.SetIndex(n) })
				r.Eval(1)
				r.Observe("exhausted_outcomes", "orig.Sign:"+o1.String()+" rebuilt.SetIndex(2^h):"+o2.String())
				if o1.Kind == rt.Refusal && o1.Text == "signature after exhaustion" {
					r.Violate("C08/exhausted-signs", "the exhausted original still signs", c08Case{"c08", c, "seed", n, nil}, "", "")
				}
				continue
			}
			for w := 0; w < 3; w++ {
				ctor := c08Ctors[(int(i)+w)%3]
				path := c08Path(rng, i, w)
				cs := c08Case{"c08", c, ctor, i, path}
				rb := c08Build(c, key0, ctor)
				c08Walk(c, rb, path)
				if !compareState(i, snaps[i], rb, cs) {
					return
				}
				// futures: every later signature identical (full future for one way, three signatures for the others)
				lim := n
				if w != int(i)%3 {
					lim = i + 3
					if lim > n {
						lim = n
					}
				}
				for f := i; f < lim; f++ {
					s, err := rb.Sign(msgFor(c, f, "c08"))
					r.Eval(1)
					if err != nil || !bytes.Equal(s, sigs[f]) {
						r.Violate(fmt.Sprintf("C08/future/h=%d", c.H), fmt.Sprintf("key rebuilt at index %d via %s signs differently from the original at index %d: %s (%s)", i, ctor, f, sigDiff(sigs[f], s), c), cs, rt.Short(sigs[f]), rt.Short(s))
						return
					}
					r.Count("future_signatures_equal", 1)
				}
				r.Observe("ways", fmt.Sprintf("%s/kind%d", ctor, w))
			}
			r.Count("crash_points", 1)
			r.Sample(map[string]interface{}{"cfg": c.String(), "crash_index": i, "ways": 3, "futures_compared_to": n - 1})
		}
		r.Observe("crash_ranges", fmt.Sprintf("%s:[%d,%d]", c, lo, hi))
	case "seam-all", "seam-sample":
		var idxs []uint32
		if mode == "seam-all" {
			for i := lo; i <= hi && i < n; i++ {
				idxs = append(idxs, i)
			}
		} else {
			set := map[uint32]bool{}
			for _, v := range []uint32{n - 1, n / 2, n/4 + 1, 3, n/2 - 1, 1, n/2 + 1, 3 * n / 4, n - 2, n / 4, 2} {
				if len(set) < int(hi) {
					set[v] = true
				}
			}
			for len(set) < int(hi) {
				set[uint32(rng.Intn(int(n)))] = true
			}
			for v := range set {
				idxs = append(idxs, v)
			}
			sortU32(idxs)
		}
		// original reaches each index by signing (stepwise); keep only needed snapshots
		need := map[uint32]bool{}
		for _, v := range idxs {
			need[v] = true
		}
		last := idxs[len(idxs)-1]
		snaps := map[uint32][]byte{}
		budgetSign := uint32(1 << 11)
		for i := uint32(0); i <= last; i++ {
			if need[i] {
				snaps[i] = xmss.VerifSnapshot(orig)
			}
			if i == last {
				break
			}
			if last > budgetSign && !nearNeeded(need, i, 64) {
				// tall tree: sign only in the neighbourhood of compared indices, step in between
				orig.SetIndex(i + 1)
				continue
			}
			if i%5 == 2 {
				arg := n + uint32(i%4)
				if i%2 == 0 && i > 0 {
					arg = i - 1
				}
				rt.Call(func() { orig.SetIndex(arg) })
				r.Count("refused_calls_in_original_life", 1)
			}
			if _, err := orig.Sign(msgFor(c, i, "c08")); err != nil {
				r.Inconclusive("original failed to sign")
				return
			}
		}
		for _, i := range idxs {
			for w := 0; w < 3; w++ {
				if mode == "seam-all" && c.H >= 10 && w != int(i)%3 && i%16 != 0 {
					continue // above h=8 each index gets one way (rotating), every 16th all three
				}
				ctor := c08Ctors[(int(i)+w)%3]
				path := c08Path(rng, i, w)
				cs := c08Case{"c08", c, ctor, i, path}
				var rb *xmss.XMSS
				if c.H <= 8 || i%64 == 0 {
					rb = c08Build(c, key0, ctor)
				} else {
					rb = xmss.VerifClone(key0)
					cs.Ctor = "seed"
				}
				c08Walk(c, rb, path)
				if !compareState(i, snaps[i], rb, cs) {
					return
				}
			}
			r.Count("crash_points", 1)
		}
		if mode == "seam-all" {
			r.Observe("crash_ranges", fmt.Sprintf("%s:[%d,%d]", c, lo, hi))
		}
		r.Sample(map[string]interface{}{"cfg": c.String(), "mode": mode, "crash_indices": len(idxs), "first": idxs[0], "last": last})
	}
}

func nearNeeded(need map[uint32]bool, i uint32, w uint32) bool {
	for d := uint32(0); d <= w; d++ {
		if need[i+d] {
			return true
		}
	}
	return false
}

func sortU32(a []uint32) {
	for i := 1; i < len(a); i++ {
		for j := i; j > 0 && a[j] < a[j-1]; j-- {
			a[j], a[j-1] = a[j-1], a[j]
		}
	}
}

func fmtPath(p []uint32) string {
	s := ""
	for _, v := range p {
		if v&signMark != 0 {
			s += "S"
		} else {
			s += fmt.Sprintf("J%d", v)
		}
		s += " "
	}
	return s
}

func c08Replay(cs map[string]interface{}) (bool, string) {
	var c c08Case
	if err := rt.Decode(cs, &c); err != nil {
		return false, "bad case: " + err.Error()
	}
	var viol bool
	var detail string
	c.Cfg.seam(func() {
		orig := c.Cfg.newLib()
		key0 := xmss.VerifClone(orig)
		n := uint32(1) << uint(c.Cfg.H)
		for i := uint32(0); i < c.Idx; i++ {
			orig.Sign(msgFor(c.Cfg, i, "c08"))
		}
		rb := c08Build(c.Cfg, key0, c.Ctor)
		c08Walk(c.Cfg, rb, c.Path)
		a, b := xmss.VerifSnapshot(orig), xmss.VerifSnapshot(rb)
		if !bytes.Equal(a, b) {
			viol, detail = true, fmt.Sprintf("state digests differ at index %d: original %s rebuilt %s", c.Idx, rt.Digest(a), rt.Digest(b))
			return
		}
		lim := n
		if c.Cfg.Seam || c.Cfg.H > 8 {
			lim = c.Idx + 4
			if lim > n {
				lim = n
			}
		}
		for f := c.Idx; f < lim; f++ {
			m := msgFor(c.Cfg, f, "c08")
			s1, _ := orig.Sign(m)
			s2, _ := rb.Sign(m)
			if !bytes.Equal(s1, s2) {
				viol, detail = true, fmt.Sprintf("future signature at index %d differs: %s", f, sigDiff(s1, s2))
				return
			}
		}
		detail = fmt.Sprintf("states and futures equal at index %d", c.Idx)
	})
	return viol, detail
}

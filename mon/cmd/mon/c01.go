package main

import (
	"bytes"
	"fmt"

	"github.com/theQRL/go-qrllib/xmss"

	"verifmon/ref/xmssref"
	"verifmon/rt"
)

// C01 — every signature over the key's whole life verifies.
//
// (A) real hashes: histories of Sign / SetIndex over whole key lives; every
//     returned signature is checked with xmss.Verify (the property's own oracle),
//     with the reference verifier, and against a one-bit-different message.
// (B) leaf seam: the authentication path the traversal state holds at every
//     index equals the path read from an independently built full tree.

func init() {
	monitors["C01"] = &Monitor{Plan: c01Plan, Run: c01Run, Replay: c01Replay}
}

func c01Plan(tier string, seed uint64) (jobs []rt.Job) {
	rng := rt.NewRand(seed, "C01/plan")
	add := func(c XCfg, mode string, cost float64, extra map[string]interface{}) {
		a := c.args()
		a["mode"] = mode
		for k, v := range extra {
			a[k] = v
		}
		jobs = append(jobs, rt.Job{ID: fmt.Sprintf("C01/%s/%s%s", c, mode, map[bool]string{true: "/seam"}[c.Seam]), Kind: "c01", Cost: cost, Args: a})
	}
	real := func(h, hf int, s [48]byte) XCfg { return XCfg{H: h, HF: hf, Seed: rt.Hex(s[:])} }
	seam := func(h, hf int, s [48]byte) XCfg { return XCfg{H: h, HF: hf, Seed: rt.Hex(s[:]), Seam: true} }
	q := tier == "quick"
	for hf := 0; hf < 3; hf++ {
		// (A) real hashes
		ns := 2
		if !q {
			ns = 4
		}
		for _, s := range seedsFor(rng, ns) {
			add(real(4, hf, s), "all", 0.4, nil)
			add(real(4, hf, s), "mixed", 0.4, nil)
			add(real(6, hf, s), "all", 1.5, nil)
			add(real(6, hf, s), "mixed", 1, nil)
		}
		add(real(4, hf, rng.Seed48()), "jumpsign", 1, nil)
		if !q || int(seed%3) == hf {
			add(real(6, hf, rng.Seed48()), "jumpsign", 8, nil)
		}
		add(real(8, hf, rng.Seed48()), "all", 6, nil)
		if !q {
			add(real(8, hf, rng.Seed48()), "mixed", 4, nil)
			add(real(8, hf, rng.Seed48()), "all", 6, nil)
			add(real(10, hf, rng.Seed48()), "all", 25, nil)
			add(real(10, hf, rng.Seed48()), "mixed", 12, nil)
			add(real(12, hf, rng.Seed48()), "all", 110, nil)
			add(real(14, hf, rng.Seed48()), "mixed", 200, map[string]interface{}{"maxsigs": 3000})
		}
		// (B) seam
		maxH := 16
		if !q {
			maxH = 20
		}
		for h := 4; h <= maxH; h += 2 {
			s := rng.Seed48()
			cost := float64(uint32(1)<<uint(h)) * 0.00006
			full := h <= 10 || (!q && h <= 16)
			add(seam(h, hf, s), "seam-sign", cost*10, map[string]interface{}{"windows": !full}) // whole life through Sign
			add(seam(h, hf, s), "seam-step", cost, nil)                                         // whole life through SetIndex(i+1)
			jb := 150_000
			if !q {
				jb = 6_000_000
			}
			add(seam(h, hf, s), "seam-jumps", 2, map[string]interface{}{"allpairs": h <= 6 || (!q && h <= 8), "budget": jb})
		}
	}
	// tall trees end to end: fake leaves everywhere except at the indices that get signed, which carry the
	// genuine WOTS leaves, so the signatures of heights 16..22 go through the real Verify
	tallH := []int{16, 18}
	if !q {
		tallH = []int{12, 14, 16, 18, 20, 22}
	}
	for _, h := range tallH {
		for hf := 0; hf < 3; hf++ {
			if q && hf != (h/2+int(seed))%3 {
				continue
			}
			s := rng.Seed48()
			add(XCfg{H: h, HF: hf, Seed: rt.Hex(s[:]), Seam: true}, "tall-verify", float64(uint32(1)<<uint(h))*0.00003+2, nil)
		}
	}
	if !q {
		for _, h := range []int{22} {
			for hf := 0; hf < 3; hf++ {
				add(seam(h, hf, rng.Seed48()), "seam-step", 120, nil)
			}
		}
		add(seam(22, 0, rng.Seed48()), "seam-jumps", 120, map[string]interface{}{"budget": 30_000_000})
		add(seam(24, 0, rng.Seed48()), "seam-step", 500, nil)
	}
	if tier == "thorough" {
		add(real(16, 0, rng.Seed48()), "mixed", 400, map[string]interface{}{"maxsigs": 3000})
	}
	// every supported height, including those too tall to build: the constructors must get past their own guards
	add(seam(30, 0, rng.Seed48()), "ctor-guards", 1, nil)
	return
}

// c01CtorGuards: for every supported height 4..30 and hash function, each of the three constructors is started
// under a leaf override that reports the first leaf request and then parks the calling goroutine for good. Reaching
// the first leaf means the constructor accepted its parameters and began to build the tree; a refusal or fault
// before that is a violation ("every supported height"). The verdict is decided by which of the two events
// happens, not by a clock; the parked goroutines end with the job's process. Must be the only user of the seam
// in its process (one job = one process).
func c01CtorGuards(j *rt.Job, rng *rt.Rand, r *rt.Rec) {
	type ev struct {
		leaf bool
		out  rt.Outcome
	}
	for h := 4; h <= 30; h += 2 {
		for hf := 0; hf < 3; hf++ {
			for _, ctor := range []string{"NewXMSSFromSeed", "NewXMSSFromExtendedSeed", "NewXMSSFromHeight"} {
				ch := make(chan ev, 2)
				xmss.VerifSetLeafOverride(func(leaf []uint8, idx uint32) {
					ch <- ev{leaf: true}
					select {} // park: the tree is never built
				})
				sd := rng.Seed48()
				go func() {
					out := rt.Call(func() {
						switch ctor {
						case "NewXMSSFromSeed":
							xmss.NewXMSSFromSeed(sd, uint8(h), xmss.HashFunction(hf), 0)
						case "NewXMSSFromExtendedSeed":
							var ext [51]byte
							ext[0], ext[1] = byte(hf), byte(h/2)
							copy(ext[3:], sd[:])
							xmss.NewXMSSFromExtendedSeed(ext)
						case "NewXMSSFromHeight":
							xmss.NewXMSSFromHeight(uint8(h), xmss.HashFunction(hf))
						}
					})
					ch <- ev{out: out}
				}()
				e := <-ch
				r.Eval(1)
				r.Distinct("ctor", ctor, h, hf)
				if !e.leaf {
					r.Violate("C01/constructor-refuses-supported-height/"+ctor, fmt.Sprintf("%s for the supported height %d (%s) ended before requesting any leaf: %s", ctor, h, hashNames[hf], e.out),
						jobCase(j), "the constructor starts building the tree", e.out.String())
					return
				}
				r.Count("constructors_past_their_guards", 1)
			}
		}
	}
	r.Sample(map[string]interface{}{"heights": "4..30 even", "hash_functions": 3, "constructors": []string{"NewXMSSFromSeed", "NewXMSSFromExtendedSeed", "NewXMSSFromHeight"}, "event": "first leaf requested before any refusal"})
}

func flipBit(b []byte, bit int) []byte {
	c := append([]byte(nil), b...)
	c[bit/8] ^= 1 << uint(bit%8)
	return c
}

func c01Run(j *rt.Job, seed uint64, r *rt.Rec) {
	c := cfgFromJob(j)
	mode := j.Str("mode")
	rng := rt.NewRand(seed, j.ID)
	r.Observe("configs", fmt.Sprintf("h=%d/%s/%s", c.H, hashNames[c.HF], mode))
	n := uint32(1) << uint(c.H)
	if mode == "tall-verify" {
		c01TallVerify(c, j, rng, r)
		return
	}
	if mode == "ctor-guards" {
		c01CtorGuards(j, rng, r)
		return
	}
	if c.Seam {
		c.seam(func() { c01Seam(c, mode, j, rng, r) })
		return
	}

	// the slice returned by the previous Sign is kept (not copied) and judged again after the next Sign
	var heldSig, heldMsg []byte
	var heldDigest string
	var heldIdx uint32
	// checkSig judges one signature returned by Sign at index idx.
	checkSig := func(k *xmss.XMSS, pk [67]byte, idx uint32, msg, sig []byte, err error, xc XCase) bool {
		r.Eval(1)
		if heldSig != nil {
			acc, _ := libVerify(heldMsg, heldSig, pk)
			if !acc || rt.Digest(heldSig) != heldDigest {
				hc := xc
				hc.Kind, hc.Cfg, hc.Idx, hc.Msg = "c01sig", c, idx, rt.Hex(msg)
				r.Violate("C01/earlier-signature-changed", fmt.Sprintf("the signature returned for index %d no longer verifies / changed after the key signed again at index %d (%s)", heldIdx, idx, c), hc, "unchanged and valid", "changed")
				return false
			}
			r.Count("earlier_signatures_still_valid", 1)
		}
		if err == nil && sig != nil {
			heldSig, heldMsg, heldDigest, heldIdx = sig, msg, rt.Digest(sig), idx
		}
		xc.Kind, xc.Cfg, xc.Idx, xc.Msg = "c01sig", c, idx, rt.Hex(msg)
		if err != nil || sig == nil {
			r.Violate("C01/sign-error", fmt.Sprintf("Sign failed at index %d (%s): %v", idx, c, err), xc, "a signature", "error")
			return false
		}
		if sigIndex(sig) != idx {
			r.Violate("C01/sig-index", fmt.Sprintf("signature made at index %d carries index %d (%s)", idx, sigIndex(sig), c), xc, fmt.Sprint(idx), fmt.Sprint(sigIndex(sig)))
			return false
		}
		acc, out := libVerify(msg, sig, pk)
		if !acc {
			r.Violate(fmt.Sprintf("C01/not-verified/h=%d", c.H), fmt.Sprintf("signature at index %d (tau=%d) does not verify under the key's public key (%s, way=%s): %s", idx, tau(idx, c.H), c, xc.Way, out), xc, "Verify = true", out.String())
			return false
		}
		r.Count("verified_by_lib", 1)
		// the reference verifier's opinion is recorded, not judged: C01 is about the library's own Verify;
		// agreement with the specification is C04's and C06's business
		if xmssref.Verify(msg, sig, pk[:]) {
			r.Count("verified_by_ref", 1)
		} else {
			r.Count("reference_verifier_disagrees(info)", 1)
		}
		// exactly the message given: a one-bit-different message must not verify
		var other []byte
		if len(msg) == 0 {
			other = []byte{0}
		} else {
			other = flipBit(msg, rng.Intn(len(msg)*8))
		}
		if acc2, _ := libVerify(other, sig, pk); acc2 {
			r.Violate("C01/other-message", fmt.Sprintf("signature at index %d also verifies for a different message (%s)", idx, c), xc, "false", "true")
			return false
		}
		r.Count("other_message_rejected", 1)
		if idx > 0 {
			r.Distinct(c.Seed, c.H, c.HF, idx, xc.Way)
		}
		r.Observe(fmt.Sprintf("tau_seen_h%d", c.H), fmt.Sprint(tau(idx, c.H)))
		r.Sample(map[string]interface{}{"cfg": c.String(), "index": idx, "way": xc.Way, "msg_len": len(msg), "verify": true})
		return true
	}

	switch mode {
	case "all":
		k := c.newLib()
		pk := k.GetPK()
		for i := uint32(0); i < n; i++ {
			msg := msgFor(c, i, "all")
			sig, err := k.Sign(msg)
			if !checkSig(k, pk, i, msg, sig, err, XCase{Way: "sign", Salt: "all"}) {
				return
			}
		}
		r.Observe("exhaustive_index_configs", c.String()+"/sign")
		if k.GetPK() != pk {
			r.Violate("C01/pk-changed", "public key changed during the key's life", XCase{Kind: "c01sig", Cfg: c, Way: "sign", Idx: n - 1, Salt: "all"}, "", "")
		}
	case "mixed":
		k := c.newLib()
		pk := k.GetPK()
		var path []uint32
		maxs := j.Int("maxsigs")
		sigs := 0
		for k.GetIndex() < n {
			cur := k.GetIndex()
			if rng.Intn(8) == 0 {
				// an operation the key must refuse (rewind / beyond the tree); signing continues afterwards
				arg := n + uint32(rng.Intn(5))
				if cur > 0 && rng.Bool() {
					arg = uint32(rng.Intn(int(cur)))
				}
				o := rt.Call(func() { k.SetIndex(arg) })
				r.Count("refused_ops_inside_walks_"+o.Kind, 1)
				if k.GetIndex() != cur {
					r.Violate("C01/refused-op-moved-index", fmt.Sprintf("SetIndex(%d) at index %d changed the index to %d", arg, cur, k.GetIndex()), XCase{Kind: "c01sig", Cfg: c, Way: "path", Path: append([]uint32(nil), path...), Idx: cur, Salt: "mixed"}, "", "")
					return
				}
				path = append(path, refuseMark|arg&^signMark&^refuseMark)
				continue
			}
			if rng.Bool() {
				d := jumpDelta(rng, cur, n)
				if maxs > 0 { // tall tree: spread the budget over the whole life
					d = d%(n/uint32(maxs)*2+1) + 1
					if cur+d > n-1 {
						d = n - 1 - cur
					}
				}
				k.SetIndex(cur + d)
				path = append(path, cur+d)
				r.Count("jumps", 1)
				continue
			}
			msg := msgFor(c, cur, "mixed")
			sig, err := k.Sign(msg)
			if !checkSig(k, pk, cur, msg, sig, err, XCase{Way: "path", Path: append([]uint32(nil), path...), Salt: "mixed"}) {
				return
			}
			path = append(path, signMark)
			sigs++
			if maxs > 0 && sigs >= maxs {
				break
			}
		}
		if maxs == 0 || k.GetIndex() < n {
			// the very last leaf is always exercised
			if k.GetIndex() < n-1 {
				k.SetIndex(n - 1)
				path = append(path, n-1)
			}
			if k.GetIndex() == n-1 {
				msg := msgFor(c, n-1, "mixed")
				sig, err := k.Sign(msg)
				checkSig(k, pk, n-1, msg, sig, err, XCase{Way: "path", Path: append([]uint32(nil), path...), Salt: "mixed"})
			}
		}
	case "jumpsign":
		// for every j: fresh key, SetIndex(j), Sign (and the two following signatures)
		first := c.newLib()
		pk := first.GetPK()
		for jx := uint32(0); jx < n; jx++ {
			k := xmss.VerifClone(first)
			if jx > 0 {
				k.SetIndex(jx)
			}
			for t := uint32(0); t < 3 && jx+t < n; t++ {
				msg := msgFor(c, jx+t, "js")
				sig, err := k.Sign(msg)
				path := []uint32{jx}
				for u := uint32(0); u < t; u++ {
					path = append(path, signMark)
				}
				if !checkSig(k, pk, jx+t, msg, sig, err, XCase{Way: "path", Path: path, Salt: "js"}) {
					return
				}
			}
		}
		r.Observe("exhaustive_index_configs", c.String()+"/jump-then-sign")
	}
}

// c01Seam: traversal invariant under the leaf seam.
func c01Seam(c XCfg, mode string, j *rt.Job, rng *rt.Rand, r *rt.Rec) {
	n := uint32(1) << uint(c.H)
	ref := c.newRef()
	k := c.newLib()
	if !bytes.Equal(k.GetRoot(), ref.Root) {
		r.Violate("C01/seam-root", fmt.Sprintf("root after key generation differs from the independent full tree (%s)", c), XCase{Kind: "c01auth", Cfg: c, Way: "jump", Idx: 0}, rt.Hex(ref.Root), rt.Hex(k.GetRoot()))
		return
	}
	assert := func(k *xmss.XMSS, idx uint32, xc XCase) bool {
		r.Eval(1)
		got := xmss.VerifAuth(k)
		want := ref.Auth(idx)
		if !bytes.Equal(got, want) {
			lvl := 0
			for lvl < c.H && bytes.Equal(got[32*lvl:32*lvl+32], want[32*lvl:32*lvl+32]) {
				lvl++
			}
			xc.Kind, xc.Cfg, xc.Idx = "c01auth", c, idx
			r.Violate(fmt.Sprintf("C01/auth-path/h=%d", c.H), fmt.Sprintf("authentication path held for index %d (tau of previous=%d) is wrong at level %d (%s, way=%s)", idx, tau(idx-1, c.H), lvl, c, xc.Way), xc, rt.Hex(want[32*lvl:32*lvl+32]), rt.Hex(got[32*lvl:32*lvl+32]))
			return false
		}
		if idx > 0 {
			r.Distinct(c.H, c.HF, idx, xc.Way, xc.From)
		}
		return true
	}
	switch mode {
	case "seam-sign":
		windows := j.Bool("windows")
		way := "sign"
		if windows {
			way = "windows"
		}
		one := func(i uint32, jumped bool) bool {
			if jumped {
				k.SetIndex(i)
			}
			if !assert(k, i, XCase{Way: way, Salt: "seam"}) {
				return false
			}
			sig, err := k.Sign(msgFor(c, i, "seam"))
			if err != nil || sigIndex(sig) != i || !bytes.Equal(sig[2180:], ref.Auth(i)) || !bytes.Equal(k.GetRoot(), ref.Root) {
				r.Violate(fmt.Sprintf("C01/auth-path-in-sig/h=%d", c.H), fmt.Sprintf("signature at index %d embeds a wrong authentication path or index, or the root changed (%s)", i, c), XCase{Kind: "c01auth", Cfg: c, Way: way, Idx: i, Salt: "seam"}, "", "")
				return false
			}
			r.Count("seam_signatures", 1)
			r.Observe(fmt.Sprintf("tau_seen_h%d", c.H), fmt.Sprint(tau(i, c.H)))
			return true
		}
		if windows {
			windowsWalk(n, n-1, one)
		} else {
			for i := uint32(0); i < n; i++ {
				if !one(i, false) {
					return
				}
			}
			r.Observe("exhaustive_index_configs", c.String()+"/seam-sign")
		}
		if r.NViol() > 0 {
			return
		}
		r.Sample(map[string]interface{}{"cfg": c.String(), "mode": mode, "windows": windows, "last_auth_digest": rt.Digest(xmss.VerifAuth(k))})
	case "seam-step":
		for i := uint32(0); i < n; i++ {
			if i > 0 {
				k.SetIndex(i)
			}
			if !assert(k, i, XCase{Way: "step64", Salt: "seam"}) {
				return
			}
			if i%64 == 63 && i+1 < n {
				// a real Sign every 64th step (its own copy of the traversal step)
				sig, err := k.Sign(msgFor(c, i, "seam"))
				if err != nil || sigIndex(sig) != i || !bytes.Equal(sig[2180:], ref.Auth(i)) {
					r.Violate(fmt.Sprintf("C01/auth-path-in-sig/h=%d", c.H), fmt.Sprintf("signature at index %d embeds a wrong authentication path or index (%s)", i, c), XCase{Kind: "c01auth", Cfg: c, Way: "step64", Idx: i, Salt: "seam"}, "", "")
					return
				}
				r.Count("seam_signatures", 1)
			}
		}
		r.Observe("exhaustive_index_configs", c.String()+"/seam-step")
		r.Sample(map[string]interface{}{"cfg": c.String(), "mode": mode, "indices_asserted": n, "last_auth_digest": rt.Digest(xmss.VerifAuth(k))})
	case "seam-jumps":
		if j.Bool("allpairs") {
			// every pair i<j: state at i (reached stepwise), one jump to j
			base := k
			for i := uint32(0); i < n; i++ {
				if i > 0 {
					base.SetIndex(i)
				}
				for jx := i + 1; jx < n; jx++ {
					cl := xmss.VerifClone(base)
					cl.SetIndex(jx)
					r.Count("jumps", 1)
					if !assert(cl, jx, XCase{Way: "jump2", From: i}) {
						return
					}
				}
			}
			r.Observe("exhaustive_jump_pair_configs", c.String())
		} else {
			cnt := 300
			budget := uint64(j.Int("budget")) // total traversal steps spent on jumps
			for t := 0; t < cnt && budget > 0; t++ {
				from := uint32(0)
				if t%3 != 0 {
					from = uint32(rng.Intn(int(n - 1)))
				}
				var to uint32
				switch t % 5 {
				case 0:
					to = n - 1
				case 1:
					to = from + 1
				case 2:
					kk := uint32(1) << uint(rng.Intn(c.H))
					to = from + kk + uint32(rng.Intn(3)) - 1
				default:
					to = from + 1 + uint32(rng.Intn(int(n-1-from)))
				}
				if to <= from {
					to = from + 1
				}
				if to > n-1 {
					to = n - 1
				}
				if uint64(to) > budget {
					continue
				}
				budget -= uint64(to)
				cl := c.newLibFast(k)
				if from > 0 {
					cl.SetIndex(from)
				}
				cl.SetIndex(to)
				r.Count("jumps", 1)
				if !assert(cl, to, XCase{Way: "jump2", From: from}) {
					return
				}
			}
		}
		r.Sample(map[string]interface{}{"cfg": c.String(), "mode": mode, "allpairs": j.Bool("allpairs")})
	}
}

// newLibFast: a fresh key at index 0 without recomputing the tree (k0 must be untouched at index 0
// or we fall back to a new key).
func (c XCfg) newLibFast(k0 *xmss.XMSS) *xmss.XMSS {
	if k0.GetIndex() == 0 {
		return xmss.VerifClone(k0)
	}
	return c.newLib()
}

func c01Replay(cs map[string]interface{}) (bool, string) {
	var c XCase
	if err := rt.Decode(cs, &c); err != nil {
		return false, "bad case: " + err.Error()
	}
	var viol bool
	var detail string
	c.Cfg.seam(func() {
		k := reachCase(c)
		switch c.Kind {
		case "c01auth":
			ref := c.Cfg.newRef()
			got, want := xmss.VerifAuth(k), ref.Auth(c.Idx)
			viol = !bytes.Equal(got, want) || k.GetIndex() != c.Idx
			if !viol && (c.Way == "sign" || c.Way == "step64" || c.Way == "windows") {
				sig, err := k.Sign(msgFor(c.Cfg, c.Idx, "seam"))
				viol = err != nil || sigIndex(sig) != c.Idx || !bytes.Equal(sig[2180:], want)
			}
			detail = fmt.Sprintf("index %d (GetIndex %d)\nlib auth %s\nref auth %s", c.Idx, k.GetIndex(), rt.Short(got), rt.Short(want))
		default:
			pk := k.GetPK()
			msg := rt.UnHex(c.Msg)
			sig, err := k.Sign(msg)
			if err != nil {
				viol, detail = true, "Sign error: "+err.Error()
				return
			}
			acc, out := libVerify(msg, sig, pk)
			racc := xmssref.Verify(msg, sig, pk[:])
			viol = !acc || !racc || sigIndex(sig) != c.Idx
			detail = fmt.Sprintf("index in signature %d (expected %d); lib Verify=%v (%s); reference Verify=%v", sigIndex(sig), c.Idx, acc, out, racc)
		}
	})
	return viol, detail
}

// c01TallVerify: a tall key whose leaves are fake except at the indices that will be signed; those carry the
// genuine WOTS leaf (computed by the reference, which C06 shows equal to the library's). The tree is then
// consistent at exactly those indices, so Sign -> Verify runs end to end through the public API at heights
// that real key generation cannot reach in a check.
func c01TallVerify(c XCfg, j *rt.Job, rng *rt.Rand, r *rt.Rec) {
	n := uint32(1) << uint(c.H)
	sd := c.seed()
	sec := xmssref.Expand(sd[:])
	set := map[uint32]bool{0: true, 1: true, n - 1: true, n / 2: true, n/2 - 1: true, n / 8: true, n/8 + n/16 - 1: true, 255: true, 256: true}
	if n > 65536 {
		set[65535], set[65536] = true, true
	}
	for len(set) < 16 {
		set[uint32(rng.Intn(int(n)))] = true
	}
	var idxs []uint32
	real := map[uint32][]byte{}
	for v := range set {
		if v < n {
			idxs = append(idxs, v)
			real[v] = xmssref.Hash(c.HF).Leaf(sec.SkSeed, sec.Pub, v)
		}
	}
	sortU32(idxs)
	xmss.VerifSetLeafOverride(func(leaf []uint8, idx uint32) {
		if l, ok := real[idx]; ok {
			copy(leaf, l)
			return
		}
		copy(leaf, fakeLeafBytes(sd[:], idx))
	})
	defer xmss.VerifSetLeafOverride(nil)
	k := c.newLib()
	pk := k.GetPK()
	r.Observe("configs", fmt.Sprintf("h=%d/%s/tall-verify", c.H, hashNames[c.HF]))
	for _, idx := range idxs {
		if idx > k.GetIndex() {
			k.SetIndex(idx)
		}
		if k.GetIndex() != idx {
			continue
		}
		msg := msgFor(c, idx, "tall")
		sig, err := k.Sign(msg)
		r.Eval(1)
		xc := XCase{Kind: "job"}
		_ = xc
		if err != nil || sigIndex(sig) != idx {
			r.Violate("C01/sign-error", fmt.Sprintf("Sign failed or carries a wrong index at index %d of a tall key (%s)", idx, c), jobCase(j), "", "")
			return
		}
		acc, out := libVerify(msg, sig, pk)
		if !acc {
			r.Violate(fmt.Sprintf("C01/not-verified/h=%d", c.H), fmt.Sprintf("signature at index %d of a height-%d key (genuine leaf at that index) does not verify under the key's public key (%s): %s", idx, c.H, c, out), jobCase(j), "Verify = true", out.String())
			return
		}
		if acc2, _ := libVerify(append(append([]byte(nil), msg...), 1), sig, pk); acc2 {
			r.Violate("C01/other-message", fmt.Sprintf("signature at index %d of a tall key also verifies for a different message (%s)", idx, c), jobCase(j), "false", "true")
			return
		}
		r.Count("verified_by_lib", 1)
		r.Count("tall_signatures_verified", 1)
		if xmssref.Verify(msg, sig, pk[:]) {
			r.Count("verified_by_ref", 1)
		} else {
			r.Count("reference_verifier_disagrees(info)", 1)
		}
		r.Distinct(c.Seed, c.H, c.HF, idx, "tall")
	}
	r.Sample(map[string]interface{}{"cfg": c.String(), "mode": "tall-verify", "signed_indices": idxs})
}

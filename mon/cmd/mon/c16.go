package main

import (
	"bytes"
	"encoding/hex"
	"fmt"
	"strings"

	"github.com/theQRL/go-qrllib/dilithium"
	"github.com/theQRL/go-qrllib/qrllib-js/dilithiumjs"
	"github.com/theQRL/go-qrllib/qrllib-js/xmssjs"
	"github.com/theQRL/go-qrllib/xmss"

	"verifmon/ref/xmssref"
	"verifmon/rt"
)

// C16 — the JavaScript-facing string wrappers agree with the core API.

func init() {
	monitors["C16"] = &Monitor{Plan: c16Plan, Run: c16Run, Replay: c16Replay}
}

func c16Plan(tier string, seed uint64) (jobs []rt.Job) {
	n := 6
	if tier != "quick" {
		n = 96
	}
	for b := 0; b < n; b++ {
		jobs = append(jobs, rt.Job{ID: fmt.Sprintf("C16/dilithium/%d", b), Kind: "dil", Cost: 1, Args: map[string]interface{}{"n": 6}})
		jobs = append(jobs, rt.Job{ID: fmt.Sprintf("C16/xmss/%d", b), Kind: "xmss", Cost: 2, Args: map[string]interface{}{"n": 4, "hf": b % 3}})
	}
	return
}

type c16Case struct {
	Kind string `json:"kind"`
	Fn   string `json:"fn"`
	Msg  string `json:"msg"`  // hex of the message bytes
	A    string `json:"a"`    // first string argument exactly as passed (signature or pk or address)
	B    string `json:"b"`    // second string argument (pk) if any
	Hexy bool   `json:"hexy"` // arguments are well-formed hex of the exact length (core comparison applies)
}

// render: hex string with an optional prefix and letter case
func render(b []byte, style int) string {
	s := hex.EncodeToString(b)
	if style&2 != 0 {
		s = strings.ToUpper(s)
	}
	if style&1 != 0 {
		s = "0x" + s
	}
	return s
}

func stripHex(s string) ([]byte, bool) {
	s = strings.TrimPrefix(s, "0x")
	b, err := hex.DecodeString(s)
	return b, err == nil
}

// c16Eval runs the wrapper and the core on the decoded bytes; "" when they agree.
func c16Eval(c c16Case) string {
	msg := rt.UnHex(c.Msg)
	var wOut, cOut string
	var wo, co rt.Outcome
	switch c.Fn {
	case "DilithiumVerify":
		wo = rt.Call(func() { wOut = fmt.Sprint(dilithiumjs.DilithiumVerify(msg, c.A, c.B)) })
	case "GetDilithiumAddressFromPK":
		wo = rt.Call(func() { wOut = dilithiumjs.GetDilithiumAddressFromPK(c.A) })
	case "IsValidDilithiumAddress":
		wo = rt.Call(func() { wOut = fmt.Sprint(dilithiumjs.IsValidDilithiumAddress(c.A)) })
	case "XMSSVerify":
		wo = rt.Call(func() { wOut = fmt.Sprint(xmssjs.XMSSVerify(string(msg), c.A, c.B)) })
	case "GetXMSSAddressFromPK":
		wo = rt.Call(func() { wOut = xmssjs.GetXMSSAddressFromPK(c.A) })
	case "IsValidXMSSAddress":
		wo = rt.Call(func() { wOut = fmt.Sprint(xmssjs.IsValidXMSSAddress(c.A)) })
	}
	if wo.Kind == rt.Fault {
		return "wrapper ended in a runtime fault: " + wo.Text
	}
	if !c.Hexy {
		// not valid hexadecimal: false / "" and no failure
		if wo.Kind != rt.Value {
			return "wrapper failed on non-hexadecimal input: " + wo.String()
		}
		if wOut != "false" && wOut != "" {
			return fmt.Sprintf("wrapper returned %q for non-hexadecimal input (expected false / empty string)", wOut)
		}
		return ""
	}
	a, _ := stripHex(c.A)
	b, _ := stripHex(c.B)
	isAddr := false
	switch c.Fn {
	case "DilithiumVerify":
		var s [4595]byte
		var p [2592]byte
		copy(s[:], a)
		copy(p[:], b)
		co = rt.Call(func() { cOut = fmt.Sprint(dilithium.Verify(msg, s, &p)) })
	case "GetDilithiumAddressFromPK":
		var p [2592]byte
		copy(p[:], a)
		co = rt.Call(func() { x := dilithium.GetDilithiumAddressFromPK(p); cOut = hex.EncodeToString(x[:]) })
		isAddr = true
	case "IsValidDilithiumAddress":
		var ad [20]byte
		copy(ad[:], a)
		co = rt.Call(func() { cOut = fmt.Sprint(dilithium.IsValidDilithiumAddress(ad)) })
	case "XMSSVerify":
		var p [67]byte
		copy(p[:], b)
		co = rt.Call(func() { cOut = fmt.Sprint(xmss.Verify(msg, a, p)) })
	case "GetXMSSAddressFromPK":
		var p [67]byte
		copy(p[:], a)
		co = rt.Call(func() { x := xmss.GetXMSSAddressFromPK(p); cOut = hex.EncodeToString(x[:]) })
		isAddr = true
	case "IsValidXMSSAddress":
		var ad [20]byte
		copy(ad[:], a)
		co = rt.Call(func() { cOut = fmt.Sprint(xmss.IsValidXMSSAddress(ad)) })
	}
	if co.Kind != wo.Kind {
		return fmt.Sprintf("wrapper outcome %s (%q) but core outcome %s (%q)", wo, wOut, co, cOut)
	}
	if co.Kind == rt.Refusal {
		if co.Text != wo.Text {
			return fmt.Sprintf("wrapper refuses with %q, core with %q", wo.Text, co.Text)
		}
		return ""
	}
	if isAddr {
		wb, ok := stripHex(wOut)
		if !ok || hex.EncodeToString(wb) != cOut {
			return fmt.Sprintf("wrapper returned address %q, core gives %s", wOut, cOut)
		}
		return ""
	}
	if wOut != cOut {
		return fmt.Sprintf("wrapper returned %s, core returned %s", wOut, cOut)
	}
	return ""
}

func c16Check(r *rt.Rec, c c16Case, class string) bool {
	c.Kind = "c16"
	r.Eval(1)
	r.Count(c.Fn+"/"+class, 1)
	if why := c16Eval(c); why != "" {
		key := "C16/" + c.Fn + "/" + class
		r.Violate(key, c.Fn+" ("+class+"): "+why, c, "", "")
		return false
	}
	r.Distinct(c.Fn, class, rt.Digest([]byte(c.A), []byte(c.B), []byte(c.Msg)))
	return true
}

// nonHex variants of a good hex string
// nonHex: variants of a good hex string that are not valid hexadecimal; each is listed twice in a row,
// so that a wrapper that remembers something about the previous (refused) call is exercised.
func nonHex(rng *rt.Rand, good string) []string {
	var out []string
	for _, b := range nonHex1(rng, good) {
		out = append(out, b, b)
	}
	return out
}

func nonHex1(rng *rt.Rand, good string) []string {
	mid := len(good) / 2
	// every byte value that is not a hexadecimal digit, in place of one digit (rotating positions)
	var all []string
	for b := 0; b < 256; b++ {
		c := byte(b)
		if (c >= '0' && c <= '9') || (c >= 'a' && c <= 'f') || (c >= 'A' && c <= 'F') {
			continue
		}
		p := (mid + b*7) % len(good)
		all = append(all, good[:p]+string([]byte{c})+good[p+1:])
	}
	return append(all, []string{
		good[:len(good)-1],                     // odd length
		good[:mid] + "g" + good[mid+1:],        // not a hex digit
		good[:mid] + " " + good[mid+1:],        // embedded space
		"0x0x" + good,                          // doubled prefix
		"0X" + good,                            // upper-case prefix is not the 0x prefix
		good[:mid] + "é" + good[mid+2:],        // non-ASCII
		"x" + good[1:],                         //
		good + "zz",                            //
		"0x" + good[:mid] + "-" + good[mid+1:], //
	}...)
}

func prefixPattern(sa, sb int) string {
	return fmt.Sprintf("sig:%s/pk:%s", []string{"plain", "0x", "UPPER", "0xUPPER"}[sa], []string{"plain", "0x", "UPPER", "0xUPPER"}[sb])
}

func c16Run(j *rt.Job, seed uint64, r *rt.Rec) {
	rng := rt.NewRand(seed, j.ID)
	switch j.Kind {
	case "dil":
		for t := 0; t < j.Int("n"); t++ {
			d := dilLibKey(rng.Seed48())
			pkA := d.GetPK()
			pk := pkA[:]
			msg := dilMsg(rng, rng.Intn(30))
			if t%2 == 1 {
				msg = []byte([]string{"0xdeadbeef", "0x", "0X00", "0x0x" + hex.EncodeToString(rng.Bytes(4))}[rng.Intn(4)])
			}
			sigA, _ := d.Sign(msg)
			sig := sigA[:]
			adA := d.GetAddress()
			triples := map[string][3][]byte{
				"valid":               {msg, sig, pk},
				"sig-bitflip":         {msg, flipBit(sig, rng.Intn(len(sig)*8)), pk},
				"pk-bitflip":          {msg, sig, flipBit(pk, rng.Intn(len(pk)*8))},
				"other-message":       {append([]byte("x"), msg...), sig, pk},
				"message-0x-added":    {append([]byte("0x"), msg...), sig, pk},
				"message-0x-stripped": {bytes.TrimPrefix(msg, []byte("0x")), sig, pk},
				"zero-sig":            {msg, make([]byte, 4595), pk},
				"last-byte":           {msg, flipBit(sig, len(sig)*8-1), pk},
			}
			for class, tr := range triples {
				for sa := 0; sa < 4; sa++ {
					for sb := 0; sb < 4; sb++ {
						if !c16Check(r, c16Case{Fn: "DilithiumVerify", Msg: rt.Hex(tr[0]), A: render(tr[1], sa), B: render(tr[2], sb), Hexy: true}, class+"/"+prefixPattern(sa, sb)) {
							return
						}
					}
				}
			}
			for st := 0; st < 4; st++ {
				if !c16Check(r, c16Case{Fn: "GetDilithiumAddressFromPK", A: render(pk, st), Hexy: true}, "pk/"+prefixPattern(st, 0)) {
					return
				}
				for _, ad := range [][]byte{adA[:], flipBit(adA[:], rng.Intn(8)), flipBit(adA[:], 8+rng.Intn(152)), rng.Bytes(20), make([]byte, 20)} {
					if !c16Check(r, c16Case{Fn: "IsValidDilithiumAddress", A: render(ad, st), Hexy: true}, "address/"+prefixPattern(st, 0)) {
						return
					}
					if !c16Check(r, c16Case{Fn: "IsValidXMSSAddress", A: render(ad, st), Hexy: true}, "dilithium-address/"+prefixPattern(st, 0)) {
						return
					}
				}
			}
			gs, gp, ga := render(sig, 0), render(pk, 0), render(adA[:], 0)
			for _, bad := range nonHex(rng, gs) {
				if !c16Check(r, c16Case{Fn: "DilithiumVerify", Msg: rt.Hex(msg), A: bad, B: gp}, "non-hex-signature") {
					return
				}
			}
			for _, bad := range nonHex(rng, gp) {
				if !c16Check(r, c16Case{Fn: "DilithiumVerify", Msg: rt.Hex(msg), A: gs, B: bad}, "non-hex-pk") || !c16Check(r, c16Case{Fn: "GetDilithiumAddressFromPK", A: bad}, "non-hex-pk") {
					return
				}
			}
			for _, bad := range nonHex(rng, ga) {
				if !c16Check(r, c16Case{Fn: "IsValidDilithiumAddress", A: bad}, "non-hex-address") {
					return
				}
			}
		}
		r.Sample(map[string]interface{}{"scheme": "dilithium", "keys": j.Int("n"), "prefix_patterns": 16})
	case "xmss":
		for t := 0; t < j.Int("n"); t++ {
			h := []int{4, 8, 6, 4}[t%4]
			c := XCfg{H: h, HF: j.Int("hf"), Seed: rt.Hex(rng.Bytes(48))}
			k := c.newLib()
			pkA := k.GetPK()
			pk := pkA[:]
			adA := k.GetAddress()
			if i := rng.Intn(1 << uint(h)); i > 0 {
				k.SetIndex(uint32(i))
			}
			msg := []byte(fmt.Sprintf("message %d \x00\xff", t))
			if t%2 == 1 {
				// messages that look like the wrappers' own string arguments
				msg = []byte([]string{"0xdeadbeef", "0x", "0X00", "0x0x" + hex.EncodeToString(rng.Bytes(4))}[rng.Intn(4)])
			}
			sig, _ := k.Sign(msg)
			p2 := append([]byte(nil), pk...)
			p2[0] = (p2[0] + 1) % 3
			p3 := append([]byte(nil), pk...)
			p3[0] |= 0x10 // signature type nibble: the core refuses
			p4 := append([]byte(nil), pk...)
			p4[1] ^= 0x01 // other height: size mismatch
			triples := map[string][3][]byte{
				"valid":               {msg, sig, pk},
				"sig-bitflip":         {msg, flipBit(sig, rng.Intn(len(sig)*8)), pk},
				"pk-bitflip":          {msg, sig, flipBit(pk, 24+rng.Intn(64*8))},
				"other-message":       {append([]byte("x"), msg...), sig, pk},
				"message-0x-added":    {append([]byte("0x"), msg...), sig, pk},
				"message-0x-stripped": {bytes.TrimPrefix(msg, []byte("0x")), sig, pk},
				"other-hash-desc":     {msg, sig, p2},
				"sigtype-desc":        {msg, sig, p3},
				"height-desc":         {msg, sig, p4},
				"last-byte":           {msg, flipBit(sig, len(sig)*8-1), pk},
			}
			for class, tr := range triples {
				for sa := 0; sa < 4; sa++ {
					for sb := 0; sb < 4; sb++ {
						if !c16Check(r, c16Case{Fn: "XMSSVerify", Msg: rt.Hex(tr[0]), A: render(tr[1], sa), B: render(tr[2], sb), Hexy: true}, class+"/"+prefixPattern(sa, sb)) {
							return
						}
					}
				}
			}
			for st := 0; st < 4; st++ {
				for _, p := range [][]byte{pk, p2, flipBit(pk, 24+rng.Intn(64*8))} {
					if !c16Check(r, c16Case{Fn: "GetXMSSAddressFromPK", A: render(p, st), Hexy: true}, "pk/"+prefixPattern(st, 0)) {
						return
					}
				}
				a2 := append([]byte(nil), adA[:]...)
				a2[0] |= 0x10
				a3 := append([]byte(nil), adA[:]...)
				a3[1] |= 0x10
				for _, ad := range [][]byte{adA[:], a2, a3, rng.Bytes(20), flipBit(adA[:], 24+rng.Intn(136))} {
					if !c16Check(r, c16Case{Fn: "IsValidXMSSAddress", A: render(ad, st), Hexy: true}, "address/"+prefixPattern(st, 0)) {
						return
					}
					if !c16Check(r, c16Case{Fn: "IsValidDilithiumAddress", A: render(ad, st), Hexy: true}, "xmss-address/"+prefixPattern(st, 0)) {
						return
					}
				}
			}
			// every supported height: triples that are valid by construction (reference, no tree) through the wrapper
			if t == 0 {
				for hh := 4; hh <= 30; hh += 2 {
					sec := xmssref.Expand(rng.Bytes(48))
					hfx := (hh/2 + j.Int("hf")) % 3
					nn := uint64(1) << uint(hh)
					sm := []byte(fmt.Sprintf("height %d", hh))
					ssig, spk := sec.SparseTriple(xmssref.Hash(hfx), hh, uint32(rng.U64()%nn), sm, rng.Bytes(32*hh), [3]byte{byte(hfx), byte(hh / 2), 0})
					st := rng.Intn(4)
					if !c16Check(r, c16Case{Fn: "XMSSVerify", Msg: rt.Hex(sm), A: render(ssig, st), B: render(spk, 3-st), Hexy: true}, fmt.Sprintf("valid-height-%02d", hh)) ||
						!c16Check(r, c16Case{Fn: "XMSSVerify", Msg: rt.Hex(sm), A: render(flipBit(ssig, rng.Intn(len(ssig)*8)), st), B: render(spk, st), Hexy: true}, fmt.Sprintf("bitflip-height-%02d", hh)) ||
						!c16Check(r, c16Case{Fn: "GetXMSSAddressFromPK", A: render(spk, st), Hexy: true}, fmt.Sprintf("pk-height-%02d", hh)) {
						return
					}
				}
			}
			gs, gp, ga := render(sig, 0), render(pk, 0), render(adA[:], 0)
			for _, bad := range nonHex(rng, gs) {
				if !c16Check(r, c16Case{Fn: "XMSSVerify", Msg: rt.Hex(msg), A: bad, B: gp}, "non-hex-signature") {
					return
				}
			}
			for _, bad := range nonHex(rng, gp) {
				if !c16Check(r, c16Case{Fn: "XMSSVerify", Msg: rt.Hex(msg), A: gs, B: bad}, "non-hex-pk") || !c16Check(r, c16Case{Fn: "GetXMSSAddressFromPK", A: bad}, "non-hex-pk") {
					return
				}
			}
			for _, bad := range nonHex(rng, ga) {
				if !c16Check(r, c16Case{Fn: "IsValidXMSSAddress", A: bad}, "non-hex-address") {
					return
				}
			}
		}
		r.Sample(map[string]interface{}{"scheme": "xmss", "keys": j.Int("n"), "hash": hashNames[j.Int("hf")], "prefix_patterns": 16})
	}
}

func c16Replay(cs map[string]interface{}) (bool, string) {
	var c c16Case
	if err := rt.Decode(cs, &c); err != nil {
		return false, err.Error()
	}
	why := c16Eval(c)
	if why == "" {
		return false, "wrapper agrees with the core"
	}
	return true, c.Fn + ": " + why
}

package main

import (
	"golang.org/x/crypto/sha3"

	"github.com/theQRL/go-qrllib/dilithium"

	"verifmon/ref/dilref"
	"verifmon/rt"
)

const (
	dilQ      = 8380417
	dilGamma1 = 1 << 19
	dilGamma2 = (dilQ - 1) / 32
	dilBeta   = 120
	dilOmega  = 75
)

func dilLibKey(seed [48]byte) *dilithium.Dilithium {
	d, err := dilithium.NewDilithiumFromSeed(seed)
	if err != nil {
		panic("NewDilithiumFromSeed: " + err.Error())
	}
	return d
}

// dilRefKey: KeyGen_spec(SHAKE256(seed)[0:32])
func dilRefKey(seed [48]byte) *dilref.Key {
	z := make([]byte, 32)
	sha3.ShakeSum256(z, seed[:])
	return dilref.KeyGen(z)
}

var dilMsgLens = []int{0, 1, 7, 31, 32, 33, 135, 136, 137, 1000}

func dilMsg(rng *rt.Rand, i int) []byte {
	l := dilMsgLens[i%len(dilMsgLens)]
	if rng.Intn(3) == 0 { // any length up to a few hash blocks, so that length-dependent paths are not missed
		l = rng.Intn(700)
	}
	switch (i / len(dilMsgLens)) % 4 {
	case 1:
		return make([]byte, l)
	case 2:
		b := make([]byte, l)
		for k := range b {
			b[k] = 0xFF
		}
		return b
	}
	return rng.Bytes(l)
}

// dilVerify at the API boundary; any panic is reported separately.
func dilVerify(msg []byte, sig []byte, pk []byte) (acc bool, out rt.Outcome) {
	var s [dilithium.CryptoBytes]byte
	var p [dilithium.CryptoPublicKeyBytes]byte
	copy(s[:], sig)
	copy(p[:], pk)
	out = rt.Call(func() { acc = dilithium.Verify(msg, s, &p) })
	if out.Kind != rt.Value {
		acc = false
	}
	return
}

// boundary classification of one reference signing attempt
func attemptBoundaries(a dilref.Attempt) (kinds []string) {
	if a.MaxZ == dilGamma1-dilBeta-1 {
		kinds = append(kinds, "z=bound-1(accept)")
	}
	if a.MaxZ == dilGamma1-dilBeta {
		kinds = append(kinds, "z=bound(reject)")
	}
	if a.Exit != "z" && a.Exit != "knob" {
		if a.MaxR0 == dilGamma2-dilBeta-1 {
			kinds = append(kinds, "r0=bound-1(accept)")
		}
		if a.MaxR0 == dilGamma2-dilBeta {
			kinds = append(kinds, "r0=bound(reject)")
		}
	}
	if a.Exit == "ok" && a.Weight == dilOmega {
		kinds = append(kinds, "hint=75(accept)")
	}
	if a.Exit == "hint" && a.Weight == dilOmega+1 {
		kinds = append(kinds, "hint=76(reject)")
	}
	if a.Exit == "ok" && a.CornerW1Zero > 0 {
		kinds = append(kinds, "hintcorner-w1=0")
	}
	if a.Exit == "ok" && a.CornerW1NonZero > 0 {
		kinds = append(kinds, "hintcorner-w1!=0")
	}
	return
}

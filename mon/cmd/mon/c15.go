package main

import (
	"bytes"
	"crypto/sha256"
	"encoding/hex"
	"encoding/json"
	"fmt"
	"os"
	"os/exec"
	"regexp"
	"runtime"
	"sort"
	"strconv"
	"strings"
	"sync"
	"sync/atomic"
	"syscall"
	"time"

	"github.com/theQRL/go-qrllib/common"
	"github.com/theQRL/go-qrllib/dilithium"
	"github.com/theQRL/go-qrllib/misc"
	"github.com/theQRL/go-qrllib/qrllib-js/dilithiumjs"
	"github.com/theQRL/go-qrllib/qrllib-js/xmssjs"
	"github.com/theQRL/go-qrllib/xmss"

	"verifmon/rt"
)

// C15 — stateless operations are safe to run concurrently and history-free.
// Oracle 1: the Go race detector (this monitor's jobs run on the -race build; the
// driver counts report blocks in the race logs). Oracle 2: a result monitor —
// every call made by any goroutine must return exactly what the same call
// returned in a fresh single-goroutine reference process.
//
// Each job is one cold-start scenario: the call table (inputs and expected
// result digests) is produced by a separate reference child process, so that in
// this process the goroutines' calls after the barrier are the first ever calls
// into the library.

func init() {
	monitors["C15"] = &Monitor{Plan: c15Plan, Run: c15Run, Replay: nil}
}

var c15Scenarios = []string{"mnemonic", "xmss-verify", "addresses", "dilithium-verify", "dilithium-sign-shared", "xmss-private-keys", "js-wrappers", "mixed", "fresh-keys"}

func c15Plan(tier string, seed uint64) (jobs []rt.Job) {
	reps := 3
	if tier != "quick" {
		reps = 25
	}
	for _, sc := range c15Scenarios {
		for rep := 0; rep < reps; rep++ {
			g := []int{16, 32, 64}[rep%3]
			jobs = append(jobs, rt.Job{ID: fmt.Sprintf("C15/%s/rep%d", sc, rep), Kind: "scenario", Cost: 8, Race: true,
				Args: map[string]interface{}{"scenario": sc, "rep": rep, "goroutines": g, "gomaxprocs": 16, "watchdog": 1200}})
		}
	}
	return
}

// c15Call: one stateless call, fully described by data.
type c15Call struct {
	Fn   string   `json:"fn"`
	Args []string `json:"args"` // hex
	W    uint32   `json:"w,omitempty"`
	Str  string   `json:"str,omitempty"`
	H    int      `json:"h,omitempty"`
	HF   int      `json:"hf,omitempty"`
	N    int      `json:"n,omitempty"`
	Want string   `json:"want"` // digest of the outcome in the reference process
}

func (c *c15Call) arg(i int) []byte {
	if i >= len(c.Args) {
		return nil
	}
	b, _ := hex.DecodeString(c.Args[i])
	return b
}

// shared Dilithium key of the "sign-shared" scenario (created before the barrier, only read afterwards)
var c15Shared *dilithium.Dilithium

func c15Digest(o rt.Outcome, parts ...[]byte) string {
	h := sha256.New()
	h.Write([]byte(o.Kind + "|" + o.Text + "|"))
	for _, p := range parts {
		h.Write([]byte{byte(len(p)), byte(len(p) >> 8), byte(len(p) >> 16)})
		h.Write(p)
	}
	return hex.EncodeToString(h.Sum(nil)[:10])
}

func bbool(b bool) []byte {
	if b {
		return []byte{1}
	}
	return []byte{0}
}

// c15Do executes a call and returns the digest of its outcome.
func c15Do(c *c15Call) string {
	var out [][]byte
	// Every byte slice and array handed to the library is private to this call. Once the call has returned
	// (and its outcome has been digested) the caller owns them again and rewrites them, as a caller that
	// reuses its buffers would: a library goroutine that outlives the call and still reads them is a data
	// race, which the race detector then reports.
	var held [][]byte
	arg := func(i int) []byte {
		b := c.arg(i)
		held = append(held, b)
		return b
	}
	o := rt.Call(func() {
		switch c.Fn {
		case "misc.SeedBinToMnemonic":
			var a [48]byte
			copy(a[:], arg(0))
			out = [][]byte{[]byte(misc.SeedBinToMnemonic(a))}
		case "misc.ExtendedSeedBinToMnemonic":
			var a [51]byte
			copy(a[:], arg(0))
			out = [][]byte{[]byte(misc.ExtendedSeedBinToMnemonic(a))}
		case "misc.MnemonicToSeedBin":
			a := misc.MnemonicToSeedBin(c.Str)
			out = [][]byte{a[:]}
		case "misc.MnemonicToExtendedSeedBin":
			a := misc.MnemonicToExtendedSeedBin(c.Str)
			out = [][]byte{a[:]}
		case "xmss.Verify":
			var pk [67]byte
			copy(pk[:], arg(2))
			out = [][]byte{bbool(xmss.Verify(arg(0), arg(1), pk))}
		case "xmss.VerifyW":
			var pk [67]byte
			copy(pk[:], arg(2))
			out = [][]byte{bbool(xmss.VerifyWithCustomWOTSParamW(arg(0), arg(1), pk, c.W))}
		case "xmss.GetXMSSAddressFromPK":
			var pk [67]byte
			copy(pk[:], arg(0))
			a := xmss.GetXMSSAddressFromPK(pk)
			out = [][]byte{a[:]}
		case "xmss.GetLegacyXMSSAddressFromPK":
			var pk [67]byte
			copy(pk[:], arg(0))
			a := xmss.GetLegacyXMSSAddressFromPK(pk)
			out = [][]byte{a[:]}
		case "xmss.IsValidXMSSAddress":
			var a [20]byte
			copy(a[:], arg(0))
			out = [][]byte{bbool(xmss.IsValidXMSSAddress(a))}
		case "xmss.IsValidLegacyXMSSAddress":
			var a [39]byte
			copy(a[:], arg(0))
			out = [][]byte{bbool(xmss.IsValidLegacyXMSSAddress(a))}
		case "xmss.Descriptor":
			d := xmss.NewQRLDescriptorFromBytes(arg(0))
			b := d.GetBytes()
			d2 := xmss.NewQRLDescriptor(d.GetHeight(), d.GetHashFunction(), d.GetSignatureType(), d.GetAddrFormatType())
			b2 := d2.GetBytes()
			out = [][]byte{b[:], b2[:], {d.GetHeight(), byte(d.GetHashFunction()), byte(d.GetSignatureType()), byte(d.GetAddrFormatType())}}
		case "xmss.KeyLife":
			var s [48]byte
			copy(s[:], arg(0))
			k := xmss.NewXMSSFromSeed(s, uint8(c.H), xmss.HashFunction(c.HF), common.SHA256_2X)
			pk := k.GetPK()
			ad := k.GetAddress()
			out = [][]byte{pk[:], ad[:], []byte(k.GetMnemonic())}
			for i := 0; i < c.N; i++ {
				if i == 2 {
					k.SetIndex(k.GetIndex() + 3)
				}
				sg, err := k.Sign([]byte(fmt.Sprintf("m%d", i)))
				if err != nil {
					sg = []byte(err.Error())
				}
				out = append(out, sg, bbool(xmss.Verify([]byte(fmt.Sprintf("m%d", i)), sg, pk)))
			}
		case "dilithium.Verify":
			var s [4595]byte
			var pk [2592]byte
			copy(s[:], arg(1))
			copy(pk[:], arg(2))
			held = append(held, pk[:])
			out = [][]byte{bbool(dilithium.Verify(arg(0), s, &pk))}
		case "dilithium.Open":
			var pk [2592]byte
			copy(pk[:], arg(1))
			held = append(held, pk[:])
			m := dilithium.Open(arg(0), &pk)
			out = [][]byte{m, bbool(m == nil)}
		case "dilithium.GetDilithiumAddressFromPK":
			var pk [2592]byte
			copy(pk[:], arg(0))
			a := dilithium.GetDilithiumAddressFromPK(pk)
			out = [][]byte{a[:]}
		case "dilithium.IsValidDilithiumAddress":
			var a [20]byte
			copy(a[:], arg(0))
			out = [][]byte{bbool(dilithium.IsValidDilithiumAddress(a))}
		case "dilithium.SignShared":
			s, err := c15Shared.Sign(arg(0))
			out = [][]byte{s[:], []byte(fmt.Sprint(err))}
		case "dilithium.SealShared":
			s, err := c15Shared.Seal(arg(0))
			pk := c15Shared.GetPK()
			ad := c15Shared.GetAddress()
			out = [][]byte{s, []byte(fmt.Sprint(err)), pk[:32], ad[:], []byte(c15Shared.GetMnemonic())}
		case "dilithium.KeyLife":
			var s [48]byte
			copy(s[:], arg(0))
			d, err := dilithium.NewDilithiumFromSeed(s)
			if err != nil {
				out = [][]byte{[]byte(err.Error())}
				return
			}
			pk, sk := d.GetPK(), d.GetSK()
			sg, _ := d.Sign(arg(1))
			out = [][]byte{pk[:], sk[:], sg[:], bbool(dilithium.Verify(arg(1), sg, &pk))}
		case "dilithium.NewRoundTrip": // fresh randomness: only the deterministic facts are digested
			d, err := dilithium.New()
			if err != nil {
				out = [][]byte{[]byte(err.Error())}
				return
			}
			pk := d.GetPK()
			sg, _ := d.Sign(arg(0))
			d2, _ := dilithium.NewDilithiumFromSeed(d.GetSeed())
			out = [][]byte{bbool(dilithium.Verify(arg(0), sg, &pk)), bbool(d2.GetPK() == pk), bbool(dilithium.IsValidDilithiumAddress(d.GetAddress()))}
		case "xmss.FromHeightRoundTrip":
			k := xmss.NewXMSSFromHeight(uint8(c.H), xmss.HashFunction(c.HF))
			pk := k.GetPK()
			sg, _ := k.Sign(arg(0))
			k2 := xmss.NewXMSSFromExtendedSeed(k.GetExtendedSeed())
			out = [][]byte{bbool(xmss.Verify(arg(0), sg, pk)), bbool(k2.GetPK() == pk), bbool(xmss.IsValidXMSSAddress(k.GetAddress()))}
		case "js.DilithiumVerify":
			out = [][]byte{bbool(dilithiumjs.DilithiumVerify(arg(0), c.Args[1], c.Args[2]))}
		case "js.GetDilithiumAddressFromPK":
			out = [][]byte{[]byte(dilithiumjs.GetDilithiumAddressFromPK(c.Str))}
		case "js.IsValidDilithiumAddress":
			out = [][]byte{bbool(dilithiumjs.IsValidDilithiumAddress(c.Str))}
		case "js.XMSSVerify":
			out = [][]byte{bbool(xmssjs.XMSSVerify(string(arg(0)), c.Args[1], c.Args[2]))}
		case "js.GetXMSSAddressFromPK":
			out = [][]byte{[]byte(xmssjs.GetXMSSAddressFromPK(c.Str))}
		case "js.IsValidXMSSAddress":
			out = [][]byte{bbool(xmssjs.IsValidXMSSAddress(c.Str))}
		default:
			panic("c15: unknown call " + c.Fn)
		}
	})
	dg := c15Digest(o, out...)
	for _, b := range held {
		for i := range b {
			b[i] ^= 0xA5
		}
	}
	return dg
}

const c15SharedSeedLabel = "C15/shared-dilithium-key"

func hx(b []byte) string { return hex.EncodeToString(b) }

// c15Table builds the scenario's call table. It calls the library (keys, honest
// signatures), so it must only run in the reference child.
func c15Table(sc string, seed uint64, rep int) (calls []c15Call) {
	rng := rt.NewRand(seed, fmt.Sprintf("C15/table/%s/%d", sc, rep))
	add := func(c c15Call) { calls = append(calls, c) }
	mnemonic := func() {
		for t := 0; t < 10; t++ {
			b := rng.Bytes(48)
			e := rng.Bytes(51)
			var a [48]byte
			var x [51]byte
			copy(a[:], b)
			copy(x[:], e)
			add(c15Call{Fn: "misc.SeedBinToMnemonic", Args: []string{hx(b)}})
			add(c15Call{Fn: "misc.ExtendedSeedBinToMnemonic", Args: []string{hx(e)}})
			add(c15Call{Fn: "misc.MnemonicToSeedBin", Str: misc.SeedBinToMnemonic(a)})
			add(c15Call{Fn: "misc.MnemonicToExtendedSeedBin", Str: misc.ExtendedSeedBinToMnemonic(x)})
		}
		add(c15Call{Fn: "misc.MnemonicToSeedBin", Str: "not a phrase at all"})
		add(c15Call{Fn: "misc.MnemonicToExtendedSeedBin", Str: ""})
	}
	xmssVerify := func() {
		for hf := 0; hf < 3; hf++ {
			// same seed under different hash functions and heights: parameters a careless cache might drop
			s := rng.Bytes(48)
			for _, h := range []int{4, 6} {
				if h == 6 && hf != rep%3 {
					continue
				}
				c := XCfg{H: h, HF: hf, Seed: hx(s)}
				k := c.newLib()
				pk := k.GetPK()
				for i := 0; i < 2; i++ {
					m := []byte(fmt.Sprintf("msg-%d-%d", hf, i))
					sg, _ := k.Sign(m)
					add(c15Call{Fn: "xmss.Verify", Args: []string{hx(m), hx(sg), hx(pk[:])}})
					add(c15Call{Fn: "xmss.VerifyW", W: 16, Args: []string{hx(m), hx(sg), hx(pk[:])}})
					add(c15Call{Fn: "xmss.Verify", Args: []string{hx(append(m, 'x')), hx(sg), hx(pk[:])}})
					// the same bytes presented with another w: same height nibble, different parameters
					add(c15Call{Fn: "xmss.VerifyW", W: 4, Args: []string{hx(m), hx(sg), hx(pk[:])}})
					add(c15Call{Fn: "xmss.VerifyW", W: 256, Args: []string{hx(m), hx(sg), hx(pk[:])}})
				}
			}
			for _, w := range []uint32{4, 256} {
				sg := rng.Bytes(wBase(w) + 32*4)
				pk := rng.Bytes(67)
				pk[0], pk[1] = byte(hf), 2
				add(c15Call{Fn: "xmss.VerifyW", W: w, Args: []string{hx([]byte("m")), hx(sg), hx(pk)}})
			}
			// calls the library refuses (each refusal path once): wrong sizes, foreign signature type, odd height,
			// a Winternitz parameter it does not support
			rp := rng.Bytes(67)
			rp[0], rp[1] = byte(hf), 2
			add(c15Call{Fn: "xmss.Verify", Args: []string{hx([]byte("m")), hx(rng.Bytes(100)), hx(rp)}})
			add(c15Call{Fn: "xmss.Verify", Args: []string{hx([]byte("m")), hx(rng.Bytes(2180 + 32*40)), hx(rp)}})
			rp2 := append([]byte(nil), rp...)
			rp2[0] |= 0x10
			add(c15Call{Fn: "xmss.Verify", Args: []string{hx([]byte("m")), hx(rng.Bytes(2180 + 32*4)), hx(rp2)}})
			rp3 := append([]byte(nil), rp...)
			rp3[1] = 1
			add(c15Call{Fn: "xmss.Verify", Args: []string{hx([]byte("m")), hx(rng.Bytes(2180 + 32*2)), hx(rp3)}})
			for _, w := range []uint32{3, 1, 0, 65536, 1 << 31} {
				add(c15Call{Fn: "xmss.VerifyW", W: w + uint32(hf)*0, Args: []string{hx([]byte("m")), hx(rng.Bytes(2180 + 32*4)), hx(rp)}})
			}
		}
	}
	addresses := func() {
		for t := 0; t < 12; t++ {
			pk := rng.Bytes(67)
			pk[0], pk[1], pk[2] = byte(rng.Intn(3)), byte(2+rng.Intn(14)), 0
			add(c15Call{Fn: "xmss.GetXMSSAddressFromPK", Args: []string{hx(pk)}})
			add(c15Call{Fn: "xmss.GetLegacyXMSSAddressFromPK", Args: []string{hx(pk)}})
			var p [67]byte
			copy(p[:], pk)
			a := xmss.GetXMSSAddressFromPK(p)
			la := xmss.GetLegacyXMSSAddressFromPK(p)
			add(c15Call{Fn: "xmss.IsValidXMSSAddress", Args: []string{hx(a[:])}})
			add(c15Call{Fn: "dilithium.IsValidDilithiumAddress", Args: []string{hx(a[:])}})
			add(c15Call{Fn: "xmss.IsValidLegacyXMSSAddress", Args: []string{hx(la[:])}})
			add(c15Call{Fn: "xmss.IsValidLegacyXMSSAddress", Args: []string{hx(flipBit(la[:], rng.Intn(39*8)))}})
			add(c15Call{Fn: "xmss.Descriptor", Args: []string{hx(rng.Bytes(3))}})
			dp := rng.Bytes(2592)
			add(c15Call{Fn: "dilithium.GetDilithiumAddressFromPK", Args: []string{hx(dp)}})
		}
	}
	dilVerifyCalls := func() {
		// two keys and several messages; invalid variants
		for kI := 0; kI < 2; kI++ {
			d := dilLibKey(rng.Seed48())
			pk := d.GetPK()
			for i := 0; i < 3; i++ {
				m := rng.Bytes(10 + i)
				sg, _ := d.Sign(m)
				sealed, _ := d.Seal(m)
				add(c15Call{Fn: "dilithium.Verify", Args: []string{hx(m), hx(sg[:]), hx(pk[:])}})
				add(c15Call{Fn: "dilithium.Verify", Args: []string{hx(m), hx(flipBit(sg[:], rng.Intn(4595*8))), hx(pk[:])}})
				add(c15Call{Fn: "dilithium.Open", Args: []string{hx(sealed), hx(pk[:])}})
				add(c15Call{Fn: "dilithium.Open", Args: []string{hx(sealed[:len(sealed)-1]), hx(pk[:])}})
				// one input per refusal path of the verifier: response out of range, broken hint section, zero signature
				zbad := append([]byte(nil), sg[:]...)
				copy(zbad[32+5*rng.Intn(7*128):], []byte{0, 0, 0, 0, 0})
				hbad := append([]byte(nil), sg[:]...)
				hbad[hintOff+75+rng.Intn(8)] = 200
				pbad := append([]byte(nil), sg[:]...)
				pbad[hintOff+74] = 9
				for _, bad := range [][]byte{zbad, hbad, pbad, make([]byte, dilSigBytes)} {
					add(c15Call{Fn: "dilithium.Verify", Args: []string{hx(m), hx(bad), hx(pk[:])}})
					add(c15Call{Fn: "dilithium.Open", Args: []string{hx(append(append([]byte(nil), bad...), m...)), hx(pk[:])}})
				}
			}
		}
	}
	signShared := func() {
		for i := 0; i < 10; i++ {
			m := rng.Bytes(1 + 3*i)
			add(c15Call{Fn: "dilithium.SignShared", Args: []string{hx(m)}})
			add(c15Call{Fn: "dilithium.SealShared", Args: []string{hx(m)}})
		}
		// other key objects built from seeds while the shared one is in use
		for i := 0; i < 3; i++ {
			add(c15Call{Fn: "dilithium.KeyLife", Args: []string{hx(rng.Bytes(48)), hx(rng.Bytes(5))}})
		}
		add(c15Call{Fn: "dilithium.NewRoundTrip", Args: []string{hx(rng.Bytes(7))}})
	}
	xmssPrivate := func() {
		add(c15Call{Fn: "xmss.FromHeightRoundTrip", Args: []string{hx(rng.Bytes(7))}, H: 4, HF: rep % 3})
		seeds := [][]byte{rng.Bytes(48), rng.Bytes(48)}
		for hf := 0; hf < 3; hf++ {
			for _, h := range []int{4, 6} {
				if h == 6 && hf != (rep+1)%3 {
					continue
				}
				for si, s := range seeds {
					if h == 6 && si > 0 {
						continue
					}
					add(c15Call{Fn: "xmss.KeyLife", Args: []string{hx(s)}, H: h, HF: hf, N: 4})
				}
			}
		}
	}
	jsWrappers := func() {
		d := dilLibKey(rng.Seed48())
		pk := d.GetPK()
		m := rng.Bytes(12)
		sg, _ := d.Sign(m)
		ad := d.GetAddress()
		c := XCfg{H: 4, HF: rep % 3, Seed: hx(rng.Bytes(48))}
		k := c.newLib()
		xpk := k.GetPK()
		xm := []byte("js message")
		xs, _ := k.Sign(xm)
		xa := k.GetAddress()
		for _, pre := range []string{"", "0x"} {
			add(c15Call{Fn: "js.DilithiumVerify", Args: []string{hx(m), pre + hx(sg[:]), pre + hx(pk[:])}})
			add(c15Call{Fn: "js.DilithiumVerify", Args: []string{hx(append(m, 1)), pre + hx(sg[:]), pre + hx(pk[:])}})
			add(c15Call{Fn: "js.GetDilithiumAddressFromPK", Str: pre + hx(pk[:])})
			add(c15Call{Fn: "js.IsValidDilithiumAddress", Str: pre + hx(ad[:])})
			add(c15Call{Fn: "js.XMSSVerify", Args: []string{hx(xm), pre + hx(xs), pre + hx(xpk[:])}})
			add(c15Call{Fn: "js.XMSSVerify", Args: []string{hx(append(xm, 1)), pre + hx(xs), pre + hx(xpk[:])}})
			add(c15Call{Fn: "js.GetXMSSAddressFromPK", Str: pre + hx(xpk[:])})
			add(c15Call{Fn: "js.IsValidXMSSAddress", Str: pre + hx(xa[:])})
			add(c15Call{Fn: "js.IsValidXMSSAddress", Str: pre + hx(ad[:])})
		}
		add(c15Call{Fn: "js.IsValidXMSSAddress", Str: "nothex"})
	}
	// every call draws fresh randomness and builds a new key: after the barrier all goroutines are inside the
	// constructors (NewXMSSFromHeight / dilithium.New) at the same moment
	freshKeys := func() {
		for i := 0; i < 6; i++ {
			add(c15Call{Fn: "xmss.FromHeightRoundTrip", Args: []string{hx(rng.Bytes(3 + i))}, H: 4, HF: i % 3})
		}
		add(c15Call{Fn: "dilithium.NewRoundTrip", Args: []string{hx(rng.Bytes(9))}})
	}
	switch sc {
	case "fresh-keys":
		freshKeys()
	case "mnemonic":
		mnemonic()
	case "xmss-verify":
		xmssVerify()
	case "addresses":
		addresses()
	case "dilithium-verify":
		dilVerifyCalls()
	case "dilithium-sign-shared":
		signShared()
	case "xmss-private-keys":
		xmssPrivate()
	case "js-wrappers":
		jsWrappers()
	case "mixed":
		mnemonic()
		xmssVerify()
		addresses()
		dilVerifyCalls()
		signShared()
		xmssPrivate()
		jsWrappers()
	}
	return
}

func c15SharedKey(seed uint64) *dilithium.Dilithium {
	return dilLibKey(rt.NewRand(seed, c15SharedSeedLabel).Seed48())
}

// c15Reference is the body of the reference child: build the table, run every call once, print it.
func c15Reference(sc string, seed uint64, rep int) {
	c15Shared = c15SharedKey(seed)
	calls := c15Table(sc, seed, rep)
	for i := range calls {
		calls[i].Want = c15Do(&calls[i])
	}
	b, _ := json.Marshal(calls)
	os.Stdout.Write(b)
}

func init() {
	// hidden sub-command used by the scenario jobs: mon C15ref <scenario> <seed> <rep>
	if len(os.Args) >= 5 && os.Args[1] == "C15ref" {
		var seed uint64
		var rep int
		fmt.Sscan(os.Args[3], &seed)
		fmt.Sscan(os.Args[4], &rep)
		c15Reference(os.Args[2], seed, rep)
		os.Exit(0)
	}
}

// c15Patience: how long a scenario (normally seconds) may take before its goroutines are inspected. Its
// expiry alone is never a verdict: a violation needs goroutines that are blocked (mutex, channel, select,
// semaphore) with library frames on their stacks.
const c15Patience = 8 * time.Minute
const c15Stall = 150 * time.Second

func tailStr(s string, n int) string {
	if len(s) > n {
		return s[len(s)-n:]
	}
	return s
}

// blockedInLibrary: does a goroutine dump contain a goroutine that is waiting (not running) with
// go-qrllib frames on its stack?
// Only goroutines that the runtime itself reports as waiting for at least two minutes count: on a slow or
// overloaded machine a live goroutine is often caught in a momentary wait (runtime semaphores of the allocator
// and the collector show up as "semacquire" under library frames) — that is not a deadlock.
func blockedInLibrary(dump string) bool { return libraryFrames(dump) != "" }

func libraryFrames(dump string) string { return libraryFramesMin(dump, 2) }

var c15Minutes = regexp.MustCompile(`, (\d+) minutes`)

// libraryFramesMin: goroutines waiting with library frames, for at least minMinutes according to the runtime's own annotation
func libraryFramesMin(dump string, minMinutes int) string {
	var out []string
	for _, g := range strings.Split(dump, "\n\n") {
		head := g
		if i := strings.Index(g, "\n"); i > 0 {
			head = g[:i]
		}
		if minMinutes > 0 {
			m := c15Minutes.FindStringSubmatch(head)
			if m == nil {
				continue
			}
			if n, _ := strconv.Atoi(m[1]); n < minMinutes {
				continue
			}
		}
		waiting := strings.Contains(head, "[semacquire") || strings.Contains(head, "[sync.Mutex.Lock") || strings.Contains(head, "[chan receive") ||
			strings.Contains(head, "[chan send") || strings.Contains(head, "[select") || strings.Contains(head, "[sync.RWMutex") || strings.Contains(head, "[sync.Cond.Wait") || strings.Contains(head, "[sync.WaitGroup.Wait")
		if waiting && strings.Contains(g, "github.com/theQRL/go-qrllib/") {
			out = append(out, g)
		}
	}
	return strings.Join(out, "\n\n")
}

type c15Obs struct {
	g, k, call int
	got        string
	at         int64
}

func c15Run(j *rt.Job, seed uint64, r *rt.Rec) {
	sc, rep, G := j.Str("scenario"), j.Int("rep"), j.Int("goroutines")
	// 1. the call table and the sequential results come from a fresh single-goroutine process
	cmd := exec.Command(os.Args[0], "C15ref", sc, fmt.Sprint(seed), fmt.Sprint(rep))
	cmd.Env = append(os.Environ(), "GORACE=halt_on_error=0 exitcode=0", "GOMAXPROCS=1")
	var refOut, refErr bytes.Buffer
	cmd.Stdout, cmd.Stderr = &refOut, &refErr
	if err := cmd.Start(); err != nil {
		r.Inconclusive("reference child failed to start: " + err.Error())
		return
	}
	refDone := make(chan error, 1)
	go func() { refDone <- cmd.Wait() }()
	select {
	case err := <-refDone:
		if err != nil {
			r.Inconclusive("reference child failed: " + err.Error() + " " + tailStr(refErr.String(), 400))
			return
		}
	case <-time.After(c15Patience):
		// a single goroutine making the calls one after the other does not finish: ask it where it is
		cmd.Process.Signal(syscall.SIGQUIT)
		<-refDone
		dump := refErr.String()
		if blockedInLibrary(dump) {
			r.Violate("C15/sequential-call-never-returns", "in a single-goroutine process a library call blocks forever after earlier calls (goroutine dump shows it waiting inside the library)", jobCase(j), "returns", tailStr(libraryFrames(dump), 1500))
		} else {
			r.Inconclusive("reference child did not finish within the patience limit (no goroutine blocked inside the library)")
		}
		return
	}
	raw := refOut.Bytes()
	var calls []c15Call
	if err := json.Unmarshal(raw, &calls); err != nil || len(calls) == 0 {
		r.Inconclusive("reference child produced no call table")
		return
	}
	// 2. per-goroutine operation orders (seeded), decided before the barrier
	rng := rt.NewRand(seed, j.ID)
	perG := 12
	if sc == "fresh-keys" {
		perG = 3
		if G > 32 {
			G = 32
		}
	}
	if sc == "xmss-private-keys" {
		perG = 3 // each call is a whole key life (keygen, signatures, a jump, verifications)
		if G > 24 {
			G = 24
		}
	}
	orders := make([][]int, G)
	for g := range orders {
		for k := 0; k < perG; k++ {
			switch {
			case g%4 == 0 && k < len(calls): // a quarter of the goroutines walk the table in order from a rotating start
				orders[g] = append(orders[g], (g+k)%len(calls))
			default:
				orders[g] = append(orders[g], rng.Intn(len(calls)))
			}
		}
	}
	needShared := false
	for _, c := range calls {
		if strings.HasSuffix(c.Fn, "Shared") {
			needShared = true
		}
	}
	if needShared {
		c15Shared = c15SharedKey(seed) // the one shared key object; only read after this point
	}
	// 3. cold start: all goroutines wait on one barrier, then make their first-ever calls simultaneously
	obs := make([][]c15Obs, G) // sharded: each goroutine appends to its own slice only
	var completed int64
	start := make(chan struct{})
	var wg sync.WaitGroup
	for g := 0; g < G; g++ {
		wg.Add(1)
		go func(g int) {
			defer wg.Done()
			mine := make([]c15Obs, 0, perG)
			<-start
			for k, ci := range orders[g] {
				got := c15Do(&calls[ci])
				mine = append(mine, c15Obs{g, k, ci, got, time.Now().UnixNano()})
				atomic.AddInt64(&completed, 1)
			}
			obs[g] = mine
		}(g)
	}
	close(start)
	allDone := make(chan struct{})
	go func() { wg.Wait(); close(allDone) }()
	// Waiting: the patience limit applies in any case; earlier than that the goroutines are inspected only when
	// not a single call in the whole process has completed for c15Stall, and then only goroutines that the
	// runtime reports as waiting for at least two minutes with library frames on their stacks count.
	expired, early := false, ""
	deadline := time.After(c15Patience)
	tick := time.NewTicker(10 * time.Second)
	last, lastAt := int64(0), time.Now()
wait:
	for {
		select {
		case <-allDone:
			break wait
		case <-deadline:
			expired = true
			break wait
		case <-tick.C:
			if n := atomic.LoadInt64(&completed); n != last {
				last, lastAt = n, time.Now()
			} else if time.Since(lastAt) > c15Stall {
				buf := make([]byte, 1<<22)
				if fr := libraryFramesMin(string(buf[:runtime.Stack(buf, true)]), 2); fr != "" {
					early = fr
					break wait
				}
			}
		}
	}
	tick.Stop()
	if early != "" {
		os.Stderr.WriteString("goroutines blocked inside the library:\n" + early + "\n")
		r.Violate("C15/calls-never-return", fmt.Sprintf("scenario %s with %d goroutines: no call completed for %s and goroutines have been blocked inside the library for minutes (deadlock or lost wake-up)", sc, G, c15Stall), jobCase(j), "all calls return", tailStr(early, 1500))
		return
	}
	if expired {
		buf := make([]byte, 1<<22)
		dump := string(buf[:runtime.Stack(buf, true)])
		os.Stderr.WriteString("patience limit reached; goroutine dump:\n" + dump + "\n")
		if blockedInLibrary(dump) {
			r.Violate("C15/calls-never-return", fmt.Sprintf("scenario %s with %d goroutines: calls do not return; goroutines are blocked inside the library (deadlock or lost wake-up)", sc, G), jobCase(j), "all calls return", tailStr(libraryFrames(dump), 1500))
		} else {
			r.Inconclusive("scenario did not finish within the patience limit (no goroutine blocked inside the library)")
		}
		return
	}
	// 4. result monitor (after the run, single goroutine)
	var all []c15Obs
	for _, o := range obs {
		all = append(all, o...)
	}
	bad := 0
	for _, o := range all {
		r.Eval(1)
		c := calls[o.call]
		r.Count("calls_"+c.Fn, 1)
		if o.got != c.Want {
			bad++
			if bad <= 3 {
				r.Violate("C15/result/"+c.Fn, fmt.Sprintf("%s returned a different result under concurrency (goroutine %d, its call #%d, scenario %s, %d goroutines) than in the sequential reference process", c.Fn, o.g, o.k, sc, G),
					jobCase(j), c.Want, o.got)
			}
		}
	}
	r.Count("results_equal_to_sequential", int64(len(all)-bad))
	// interleaving diversity actually seen: the order in which goroutines completed their k-th call
	sort.Slice(all, func(a, b int) bool { return all[a].at < all[b].at })
	for k := 0; k < perG; k += 4 {
		var seq []string
		for _, o := range all {
			if o.k == k {
				seq = append(seq, fmt.Sprint(o.g))
			}
		}
		r.Distinct(sc, rep, k, strings.Join(seq, ","))
	}
	// how interleaved were the calls: number of adjacent completion pairs from different goroutines
	sw := 0
	for i := 1; i < len(all); i++ {
		if all[i].g != all[i-1].g {
			sw++
		}
	}
	r.Count("completion_switches_between_goroutines", int64(sw))
	r.Count("scenario_runs", 1)
	r.Count("goroutines_total", int64(G))
	r.Observe("scenarios", fmt.Sprintf("%s/goroutines=%d", sc, G))
	r.Sample(map[string]interface{}{"scenario": sc, "rep": rep, "goroutines": G, "table_calls": len(calls), "calls_made": len(all), "goroutine_switches_in_completion_order": sw, "first_completions": firstN(all, 10)})
}

func firstN(all []c15Obs, n int) (s []string) {
	for i := 0; i < n && i < len(all); i++ {
		s = append(s, fmt.Sprintf("g%d#%d", all[i].g, all[i].k))
	}
	return
}

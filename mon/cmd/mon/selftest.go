package main

import (
	"fmt"

	"golang.org/x/crypto/sha3"

	"verifmon/ref/dilref"
	"verifmon/ref/xmssref"
	"verifmon/rt"
)

// selfTest checks the reference models against pinned known answers before any
// verdict is based on them. A failure here is "inconclusive", never a violation.
func selfTest() error {
	var zero [48]byte
	k := xmssref.KeyGen(zero[:], 4, 1, nil)
	pk := k.PK([3]byte{1, 2, 0})
	if rt.Hex(pk) != katXMSSPKh4 {
		return fmt.Errorf("xmssref h=4 SHAKE_128 zero-seed public key mismatch: %s", rt.Hex(pk))
	}
	k6 := xmssref.KeyGen(zero[:], 6, 1, nil)
	if got := rt.Hex(k6.PK([3]byte{1, 3, 0})); got != katXMSSPKh6 {
		return fmt.Errorf("xmssref h=6 SHAKE_128 zero-seed public key mismatch: %s", got)
	}
	sig := k.Sign(3, []byte("selftest"))
	if !xmssref.Verify([]byte("selftest"), sig, pk) || xmssref.Verify([]byte("selftesu"), sig, pk) {
		return fmt.Errorf("xmssref sign/verify self-consistency failed")
	}
	// dilref
	seed := rt.UnHex(katDilSeed)
	zeta := make([]byte, 32)
	sha3.ShakeSum256(zeta, seed)
	dk := dilref.KeyGen(zeta)
	if rt.Hex(dk.PK) != katDilPK {
		return fmt.Errorf("dilref public key differs from the pinned known answer")
	}
	if rt.Hex(dk.SK) != katDilSK {
		return fmt.Errorf("dilref secret key differs from the pinned known answer")
	}
	msg := []byte{0, 1, 2, 4, 6, 9, 1}
	ds, _ := dk.Sign(msg, dilref.Knobs{})
	if rt.Hex(ds) != katDilSig {
		return fmt.Errorf("dilref signature differs from the pinned known answer")
	}
	if ok, why := dilref.Verify(dk.PK, msg, ds); !ok {
		return fmt.Errorf("dilref does not verify the pinned signature: %s", why)
	}
	ds[100] ^= 1
	if ok, _ := dilref.Verify(dk.PK, msg, ds); ok {
		return fmt.Errorf("dilref accepts a corrupted signature")
	}
	return nil
}

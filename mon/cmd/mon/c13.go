package main

import (
	"bytes"
	"fmt"

	"github.com/theQRL/go-qrllib/dilithium"

	"verifmon/ref/dilref"
	"verifmon/rt"
)

// C13 — Dilithium encodings are lossless and canonical.
// Through the aliases: every value at every coefficient position for each packer
// (Latin squares), pk/sk/signature layouts, hint vectors of every weight, and
// canonicity of the signature decoder (accepted bytes re-encode to themselves).

func init() {
	monitors["C13"] = &Monitor{Plan: c13Plan, Run: c13Run, Replay: c13Replay}
}

type packer struct {
	name     string
	lo, hi   int64 // value range (inclusive)
	bytes    int
	pack     func(r []uint8, a *[256]int32)
	unpack   func(r *[256]int32, a []uint8)
	refPack  func(c *[256]int64) []byte
	refUnpck func(b []byte) [256]int64
}

var packers = []packer{
	{"eta", -2, 2, 96, dilithium.VerifPolyEtaPack, dilithium.VerifPolyEtaUnpack, dilref.PackEta, dilref.UnpackEta},
	{"t1", 0, 1023, 320, dilithium.VerifPolyT1Pack, dilithium.VerifPolyT1Unpack, dilref.PackT1, dilref.UnpackT1},
	{"t0", -4095, 4096, 416, dilithium.VerifPolyT0Pack, dilithium.VerifPolyT0Unpack, dilref.PackT0, dilref.UnpackT0},
	{"z", -(1<<19 - 1), 1 << 19, 640, dilithium.VerifPolyZPack, dilithium.VerifPolyZUnpack, dilref.PackZ, dilref.UnpackZ},
	{"w1", 0, 15, 128, dilithium.VerifPolyW1Pack, nil, dilref.PackW1, nil},
}

func packerByName(n string) *packer {
	for i := range packers {
		if packers[i].name == n {
			return &packers[i]
		}
	}
	return nil
}

func c13Plan(tier string, seed uint64) (jobs []rt.Job) {
	q := tier == "quick"
	add := func(kind string, cost float64, a map[string]interface{}) {
		jobs = append(jobs, rt.Job{ID: fmt.Sprintf("C13/%s/%d", kind, len(jobs)), Kind: kind, Cost: cost, Args: a})
	}
	for _, p := range packers {
		rng := int(p.hi - p.lo + 1)
		parts := 1
		if p.name == "z" {
			parts = 16
		}
		for k := 0; k < parts; k++ {
			add("latin", float64(rng/parts)*0.00002+0.2, map[string]interface{}{"packer": p.name, "lo": k * rng / parts, "hi": (k + 1) * rng / parts})
		}
	}
	nk := 4
	if !q {
		nk = 32
	}
	for k := 0; k < nk; k++ {
		add("keys", 2, map[string]interface{}{"n": 12})
	}
	add("hints", 3, map[string]interface{}{"n": 400})
	nc, cc := 8, 12000
	if !q {
		nc, cc = 64, 40000
	}
	for k := 0; k < nc; k++ {
		add("canon", float64(cc)*0.00008, map[string]interface{}{"n": cc})
	}
	return
}

type c13Case struct {
	Kind   string  `json:"kind"`
	Packer string  `json:"packer,omitempty"`
	Poly   []int32 `json:"poly,omitempty"`
	Sig    string  `json:"sig,omitempty"`
}

// c13Poly: pack/unpack one polynomial; "" if lossless and equal to the reference encoding.
func c13Poly(p *packer, a *[256]int32) string {
	buf := make([]byte, p.bytes+8)
	for i := range buf {
		buf[i] = 0xA5 // canary after the encoding
	}
	p.pack(buf[:p.bytes], a)
	for i := p.bytes; i < len(buf); i++ {
		if buf[i] != 0xA5 {
			return p.name + " packer wrote beyond its output size"
		}
	}
	var c [256]int64
	for i := range c {
		c[i] = int64(a[i])
	}
	want := p.refPack(&c)
	if !bytes.Equal(buf[:p.bytes], want) {
		at := 0
		for at < len(want) && buf[at] == want[at] {
			at++
		}
		return fmt.Sprintf("%s encoding differs from the bit-stream definition at byte %d (coefficients %d..)", p.name, at, at*8/bitsOf(p))
	}
	if p.unpack != nil {
		var back [256]int32
		p.unpack(&back, buf[:p.bytes])
		for i := range back {
			if back[i] != a[i] {
				return fmt.Sprintf("%s: unpack(pack(p)) changes coefficient %d (lane %d): %d -> %d", p.name, i, i%8, a[i], back[i])
			}
		}
	}
	return ""
}

func bitsOf(p *packer) int { return p.bytes * 8 / 256 }

func c13Run(j *rt.Job, seed uint64, r *rt.Rec) {
	rng := rt.NewRand(seed, j.ID)
	switch j.Kind {
	case "latin":
		p := packerByName(j.Str("packer"))
		span := p.hi - p.lo + 1
		lo, hi := int64(j.Int("lo")), int64(j.Int("hi"))
		var a [256]int32
		for k := lo; k < hi; k++ {
			// polynomial k: coefficient i carries value (k+i) mod range -> over all k every value meets every position
			for i := range a {
				a[i] = int32(p.lo + (k+int64(i))%span)
			}
			if why := c13Poly(p, &a); why != "" {
				r.Violate("C13/"+p.name, why, c13Case{Kind: "c13poly", Packer: p.name, Poly: a[:]}, "", "")
				return
			}
			// neighbours: one extreme value between opposite extremes exposes bleeding between lanes
			if k%64 == 0 {
				for i := range a {
					a[i] = int32(p.lo)
					if (int64(i)+k/64)%2 == 0 {
						a[i] = int32(p.hi)
					}
				}
				a[int(k/64)%256] = int32(p.lo + (k % span))
				if why := c13Poly(p, &a); why != "" {
					r.Violate("C13/"+p.name, why, c13Case{Kind: "c13poly", Packer: p.name, Poly: a[:]}, "", "")
					return
				}
			}
		}
		n := hi - lo
		r.Eval(n * 256)      // one evaluation = one coefficient (value at a position) round-tripped
		r.DistinctN(n * 256) // (value, position) pairs, all distinct by construction
		r.Count("latin_polynomials_"+p.name, n)
		r.Observe("exhaustive", fmt.Sprintf("%s: values [%d,%d) of %d at every position", p.name, lo, hi, span))
		r.Sample(map[string]interface{}{"packer": p.name, "latin_rows": []int64{lo, hi}, "range": []int64{p.lo, p.hi}})
	case "keys":
		c13Keys(j, rng, r)
	case "hints":
		c13Hints(j, rng, r)
	case "canon":
		c13Canon(j, rng, r)
	}
}

func randPolyIn(rng *rt.Rand, lo, hi int64, extreme int) (p [256]int32) {
	for i := range p {
		switch extreme {
		case 1:
			p[i] = int32(lo)
		case 2:
			p[i] = int32(hi)
		default:
			p[i] = int32(lo + int64(rng.Intn(int(hi-lo+1))))
		}
	}
	return
}

// c13Keys: pk/sk layouts on random and extreme vectors and on real keys.
func c13Keys(j *rt.Job, rng *rt.Rand, r *rt.Rec) {
	for t := 0; t < j.Int("n"); t++ {
		ext := 0
		if t < 2 {
			ext = t + 1
		}
		var rho, tr, key [32]byte
		copy(rho[:], rng.Bytes(32))
		copy(tr[:], rng.Bytes(32))
		copy(key[:], rng.Bytes(32))
		var t1, t0, s2 [8][256]int32
		var s1 [7][256]int32
		for i := 0; i < 8; i++ {
			t1[i] = randPolyIn(rng, 0, 1023, ext)
			t0[i] = randPolyIn(rng, -4095, 4096, ext)
			s2[i] = randPolyIn(rng, -2, 2, ext)
		}
		for i := 0; i < 7; i++ {
			s1[i] = randPolyIn(rng, -2, 2, ext)
		}
		var pk [dilPKBytes]byte
		dilithium.VerifPackPk(&pk, rho, &t1)
		// reference layout: rho || t1 (10 bits each)
		want := append([]byte{}, rho[:]...)
		for i := 0; i < 8; i++ {
			var c [256]int64
			for n := range c {
				c[n] = int64(t1[i][n])
			}
			want = append(want, dilref.PackT1(&c)...)
		}
		r.Eval(1)
		if !bytes.Equal(pk[:], want) {
			r.Violate("C13/packPk", "public-key layout differs from rho || t1 (10-bit stream)", jobCase(j), "", "")
			return
		}
		var rho2 [32]byte
		var t1b [8][256]int32
		dilithium.VerifUnpackPk(&rho2, &t1b, &pk)
		if rho2 != rho || t1b != t1 {
			r.Violate("C13/unpackPk", "unpackPk(packPk(rho,t1)) != (rho,t1)", jobCase(j), "", "")
			return
		}
		var sk [4864]byte
		dilithium.VerifPackSk(&sk, rho, tr, key, &t0, &s1, &s2)
		wsk := append(append(append([]byte{}, rho[:]...), key[:]...), tr[:]...)
		for i := 0; i < 7; i++ {
			var c [256]int64
			for n := range c {
				c[n] = int64(s1[i][n])
			}
			wsk = append(wsk, dilref.PackEta(&c)...)
		}
		for i := 0; i < 8; i++ {
			var c [256]int64
			for n := range c {
				c[n] = int64(s2[i][n])
			}
			wsk = append(wsk, dilref.PackEta(&c)...)
		}
		for i := 0; i < 8; i++ {
			var c [256]int64
			for n := range c {
				c[n] = int64(t0[i][n])
			}
			wsk = append(wsk, dilref.PackT0(&c)...)
		}
		r.Eval(1)
		if !bytes.Equal(sk[:], wsk) {
			r.Violate("C13/packSk", "secret-key layout differs from rho || key || tr || s1 || s2 || t0", jobCase(j), "", "")
			return
		}
		var rho3, tr3, key3 [32]byte
		var t0b, s2b [8][256]int32
		var s1b [7][256]int32
		dilithium.VerifUnpackSk(&rho3, &tr3, &key3, &t0b, &s1b, &s2b, &sk)
		if rho3 != rho || tr3 != tr || key3 != key || t0b != t0 || s1b != s1 || s2b != s2 {
			r.Violate("C13/unpackSk", "unpackSk(packSk(..)) does not return the components", jobCase(j), "", "")
			return
		}
		r.Count("pk_sk_roundtrips", 1)
		r.Distinct("keys", rt.Hex(rho[:8]), ext)
	}
	// real keys: unpack then pack reproduces the bytes
	for t := 0; t < 4; t++ {
		d := dilLibKey(rng.Seed48())
		pk, sk := d.GetPK(), d.GetSK()
		var rho, tr, key [32]byte
		var t1, t0, s2 [8][256]int32
		var s1 [7][256]int32
		dilithium.VerifUnpackPk(&rho, &t1, &pk)
		var pk2 [dilPKBytes]byte
		dilithium.VerifPackPk(&pk2, rho, &t1)
		dilithium.VerifUnpackSk(&rho, &tr, &key, &t0, &s1, &s2, &sk)
		var sk2 [4864]byte
		dilithium.VerifPackSk(&sk2, rho, tr, key, &t0, &s1, &s2)
		r.Eval(2)
		if pk2 != pk || sk2 != sk {
			r.Violate("C13/real-key-reencode", "pack(unpack(real key)) differs from the key", jobCase(j), "", "")
			return
		}
		r.Count("real_key_reencodes", 1)
	}
	r.Sample(map[string]interface{}{"pk_sk_vectors": j.Int("n"), "extreme_first_two": true})
}

// buildHint places `weight` ones according to a distribution.
func buildHint(rng *rt.Rand, weight, dist int) (h [8][256]int32) {
	placed := 0
	put := func(row, pos int) {
		if h[row][pos] == 0 && placed < weight {
			h[row][pos] = 1
			placed++
		}
	}
	switch dist {
	case 0: // all in one row
		row := rng.Intn(8)
		for placed < weight {
			put(row, rng.Intn(256))
		}
	case 1: // spread round-robin
		for i := 0; placed < weight; i++ {
			put(i%8, rng.Intn(256))
		}
	case 2: // some rows empty, ends of rows
		rows := []int{rng.Intn(8), rng.Intn(8)}
		put(rows[0], 0)
		put(rows[0], 255)
		put(rows[1], 0)
		put(rows[1], 255)
		for placed < weight {
			put(rows[rng.Intn(2)], rng.Intn(256))
		}
	case 3: // consecutive positions
		row, start := rng.Intn(8), rng.Intn(256-weight+1)
		if weight > 0 {
			for i := 0; i < weight; i++ {
				put(row, start+i)
			}
		}
	default:
		for placed < weight {
			put(rng.Intn(8), rng.Intn(256))
		}
	}
	return
}

func c13Hints(j *rt.Job, rng *rt.Rand, r *rt.Rec) {
	reused := make([]byte, dilSigBytes) // one output buffer reused across calls, heavier hint vectors first
	for w := 0; w <= 75; w++ {
		weight := 75 - w
		for dist := 0; dist < 5; dist++ {
			h := buildHint(rng, weight, dist)
			var z [7][256]int32
			for i := range z {
				z[i] = randPolyIn(rng, -(1<<19 - 1), 1<<19, 0)
			}
			c := rng.Bytes(32)
			// the encoder must write the complete encoding whatever the buffer held before:
			// alternately a buffer reused from the previous (heavier) vector and one pre-filled with 0xA5
			sig := reused
			if dist%2 == 1 {
				sig = bytes.Repeat([]byte{0xA5}, dilSigBytes)
			}
			if err := dilithium.VerifPackSig(sig, c, &z, &h); err != nil {
				r.Violate("C13/packSig", "packSig error: "+err.Error(), jobCase(j), "", "")
				return
			}
			// reference layout
			want := append([]byte{}, c...)
			for i := 0; i < 7; i++ {
				var cz [256]int64
				for n := range cz {
					cz[n] = int64(z[i][n])
				}
				want = append(want, dilref.PackZ(&cz)...)
			}
			var hh [8][256]int64
			for i := range h {
				for n := range h[i] {
					hh[i][n] = int64(h[i][n])
				}
			}
			want = append(want, dilref.PackHint(&hh)...)
			r.Eval(1)
			if !bytes.Equal(sig, want) {
				r.Violate("C13/packSig", fmt.Sprintf("signature layout differs from c || z || hint encoding (hint weight %d, distribution %d)", weight, dist), jobCase(j), "", "")
				return
			}
			var c2 [32]byte
			var z2 [7][256]int32
			var h2 [8][256]int32
			var sa [dilSigBytes]byte
			copy(sa[:], sig)
			if rc := dilithium.VerifUnpackSig(&c2, &z2, &h2, sa); rc != 0 {
				r.Violate("C13/unpackSig-refuses-valid", fmt.Sprintf("unpackSig refuses an honest encoding (hint weight %d, distribution %d)", weight, dist), jobCase(j), "0", fmt.Sprint(rc))
				return
			}
			if !bytes.Equal(c2[:], c) || z2 != z || h2 != h {
				r.Violate("C13/sig-roundtrip", fmt.Sprintf("unpackSig(packSig(c,z,h)) != (c,z,h) (hint weight %d, distribution %d)", weight, dist), jobCase(j), "", "")
				return
			}
			r.Count("hint_roundtrips", 1)
			r.Distinct("hint", weight, dist)
			r.Observe("hint_weights", fmt.Sprintf("%02d", weight))
		}
	}
	r.Sample(map[string]interface{}{"hint_weights": "0..75", "distributions": []string{"one row", "round-robin", "two rows incl. positions 0 and 255", "consecutive", "random"}})
}

// c13CanonOne: whenever unpackSig accepts s, packSig(unpackSig(s)) == s.
func c13CanonOne(sig []byte) (accepted bool, why string, refOK bool) {
	var c [32]byte
	var z [7][256]int32
	var h [8][256]int32
	var sa [dilSigBytes]byte
	copy(sa[:], sig)
	var rc int
	out := rt.Call(func() { rc = dilithium.VerifUnpackSig(&c, &z, &h, sa) })
	_, refOK, _ = dilref.UnpackHint(sig[hintOff:])
	if out.Kind != rt.Value {
		return false, "unpackSig panicked: " + out.String(), refOK
	}
	if rc != 0 {
		return false, "", refOK
	}
	re := make([]byte, dilSigBytes)
	if err := dilithium.VerifPackSig(re, c[:], &z, &h); err != nil {
		return true, "packSig error on a decoded value: " + err.Error(), refOK
	}
	if !bytes.Equal(re, sig) {
		at := 0
		for re[at] == sig[at] {
			at++
		}
		region := "z"
		if at < 32 {
			region = "c"
		} else if at >= hintOff {
			region = "hint section"
		}
		return true, fmt.Sprintf("decoder accepts a byte string that re-encodes differently (first difference at byte %d, %s): not canonical", at, region), refOK
	}
	return true, "", refOK
}

func c13Canon(j *rt.Job, rng *rt.Rand, r *rt.Rec) {
	// an honest signature as the base for edits
	d := dilLibKey(rng.Seed48())
	base, _ := d.Sign(rng.Bytes(20))
	for t := 0; t < j.Int("n"); t++ {
		s := append([]byte(nil), base[:]...)
		hs := s[hintOff:]
		class := ""
		switch t % 8 {
		case 0:
			class = "honest-z-random"
			copy(s[32:hintOff], rng.Bytes(7*640))
		case 1: // near-valid random hint section: sorted rows, random counts
			class = "near-valid-hints"
			for i := range hs {
				hs[i] = 0
			}
			k := 0
			for row := 0; row < 8; row++ {
				add := rng.Intn(12)
				if k+add > 75 {
					add = 75 - k
				}
				pos := rng.Intn(256 - add)
				for a := 0; a < add; a++ {
					pos += 1 + rng.Intn(3)
					if pos > 255 {
						pos = 255
					}
					hs[k] = byte(pos)
					k++
				}
				hs[75+row] = byte(k)
			}
			if rng.Intn(2) == 0 { // one mutation of the near-valid section
				switch rng.Intn(5) {
				case 0:
					if k >= 2 {
						a := rng.Intn(k - 1)
						hs[a], hs[a+1] = hs[a+1], hs[a]
					}
				case 1:
					if k >= 2 {
						a := rng.Intn(k - 1)
						hs[a+1] = hs[a]
					}
				case 2:
					if k < 75 {
						hs[k+rng.Intn(75-k)] = byte(1 + rng.Intn(255))
					}
				case 3:
					hs[75+rng.Intn(8)] = byte(rng.Intn(256))
				case 4:
					row := rng.Intn(7)
					hs[75+row], hs[75+row+1] = hs[75+row+1], hs[75+row]
				}
			}
		case 2:
			class = "swap"
			if n := int(hs[82]); n >= 2 {
				a := rng.Intn(n - 1)
				hs[a], hs[a+1] = hs[a+1], hs[a]
			}
		case 3:
			class = "duplicate"
			if n := int(hs[82]); n >= 2 {
				a := rng.Intn(n - 1)
				hs[a+1] = hs[a]
			}
		case 4:
			class = "padding"
			if n := int(hs[82]); n < 75 {
				hs[n+rng.Intn(75-n)] = byte(1 + rng.Intn(255))
			}
		case 5:
			class = "counts"
			hs[75+rng.Intn(8)] = byte(rng.Intn(256))
		case 6:
			if t%16 == 6 {
				// total weight 75 reached before the last row: the remaining counters must all be exactly 75
				class = "weight-75-trailing-counters"
				for i := range hs {
					hs[i] = 0
				}
				full := rng.Intn(7) // row in which the 75th hint sits
				k := 0
				for rr := 0; rr <= full; rr++ {
					add := (75 - k) / (full - rr + 1)
					if rr == full {
						add = 75 - k
					}
					pos := 0
					for a := 0; a < add; a++ {
						hs[k] = byte(pos)
						pos += 1 + rng.Intn(2)
						k++
					}
					hs[75+rr] = byte(k)
				}
				for rr := full + 1; rr < 8; rr++ {
					hs[75+rr] = 75
				}
				if rng.Intn(4) != 0 { // usually: one trailing counter is wrong
					hs[75+full+1+rng.Intn(7-full)] = byte(rng.Intn(256))
				}
				break
			}
			class = "random-hint-bytes"
			copy(hs, rng.Bytes(83))
			for i := 75; i < 83; i++ {
				hs[i] = byte(rng.Intn(80))
			}
		case 7:
			class = "bitflip"
			s = flipBit(s, hintOff*8+rng.Intn(83*8))
			if t%16 == 7 {
				// rows that begin at position 0 / end at position 255, listed twice
				class = "duplicate-extreme-position"
				for i := range hs {
					hs[i] = 0
				}
				row := rng.Intn(8)
				v := byte(0)
				if rng.Bool() {
					v = 255
				}
				k := 0
				for rr := 0; rr < 8; rr++ {
					if rr == row {
						if v == 0 {
							hs[k], hs[k+1], hs[k+2] = 0, 0, byte(1+rng.Intn(200))
						} else {
							hs[k], hs[k+1], hs[k+2] = byte(rng.Intn(200)), 255, 255
						}
						k += 3
					}
					hs[75+rr] = byte(k)
				}
			}
		}
		r.Eval(1)
		acc, why, refOK := c13CanonOne(s)
		if why != "" {
			r.Violate("C13/canonical/"+class, why+" ("+class+")", c13Case{Kind: "c13sig", Sig: rt.Hex(s)}, "", "")
			return
		}
		if acc {
			r.Count("decoder_accepted_"+class, 1)
		} else {
			r.Count("decoder_refused_"+class, 1)
		}
		if acc == refOK {
			r.Count("agrees_with_reference_decoder", 1)
		} else {
			r.Count("differs_from_reference_decoder(info)", 1)
		}
		r.Distinct(class, rt.Digest(s[hintOff:], s[32:64]))
	}
	r.Sample(map[string]interface{}{"signature_strings": j.Int("n"), "classes": 8})
}

func c13Replay(cs map[string]interface{}) (bool, string) {
	var c c13Case
	if err := rt.Decode(cs, &c); err != nil {
		return false, err.Error()
	}
	switch c.Kind {
	case "c13poly":
		p := packerByName(c.Packer)
		var a [256]int32
		copy(a[:], c.Poly)
		why := c13Poly(p, &a)
		return why != "", why
	case "c13sig":
		_, why, _ := c13CanonOne(rt.UnHex(c.Sig))
		return why != "", why
	}
	return false, "unknown case kind"
}

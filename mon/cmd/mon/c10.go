package main

import (
	"bytes"
	"fmt"
	"strings"

	"github.com/theQRL/go-qrllib/misc"
	"github.com/theQRL/go-qrllib/qrl"

	"verifmon/ref/mnemref"
	"verifmon/rt"
)

// C10 — mnemonic encoding is a bijection and decoding is strict.

func init() {
	monitors["C10"] = &Monitor{Plan: c10Plan, Run: c10Run, Replay: c10Replay}
}

func c10Plan(tier string, seed uint64) (jobs []rt.Job) {
	q := tier == "quick"
	add := func(kind string, cost float64, a map[string]interface{}) {
		jobs = append(jobs, rt.Job{ID: fmt.Sprintf("C10/%s/%d", kind, len(jobs)), Kind: kind, Cost: cost, Args: a})
	}
	add("table", 0.2, map[string]interface{}{})
	// position x value sweep: 32 word positions (48 bytes) and 34 (51 bytes)
	for _, size := range []int{48, 51} {
		words := size * 8 / 12
		var pos []int
		if q {
			rng := rt.NewRand(seed, fmt.Sprintf("C10/positions/%d", size))
			set := map[int]bool{0: true, 1: true, words - 1: true, words - 2: true}
			for len(set) < 10 {
				p := rng.Intn(words)
				set[p] = true
				set[p^1] = true
			}
			for p := range set {
				pos = append(pos, p)
			}
		} else {
			for p := 0; p < words; p++ {
				pos = append(pos, p)
			}
		}
		sortInts(pos)
		for _, p := range pos {
			add("sweep", 2, map[string]interface{}{"size": size, "pos": p})
		}
	}
	add("extreme", 2, map[string]interface{}{"n": 300})
	nr := 4
	if !q {
		nr = 32
	}
	for b := 0; b < nr; b++ {
		add("random", 2, map[string]interface{}{"n": 1500})
		add("strict", 2, map[string]interface{}{"n": 40})
	}
	if !q {
		// 3-byte block over all 2^24 values through the generic codec
		for p := 0; p < 64; p++ {
			add("block24", 40, map[string]interface{}{"lo": p << 18, "hi": (p + 1) << 18})
		}
	} else {
		add("block24", 3, map[string]interface{}{"lo": 0, "hi": 1 << 24, "step": 4099})
	}
	return
}

func sortInts(a []int) {
	for i := 1; i < len(a); i++ {
		for j := i; j > 0 && a[j] < a[j-1]; j-- {
			a[j], a[j-1] = a[j-1], a[j]
		}
	}
}

type c10Case struct {
	Kind   string `json:"kind"`
	Bytes  string `json:"bytes,omitempty"`
	Phrase string `json:"phrase,omitempty"`
	Size   int    `json:"size"`
}

func libEncode(b []byte) (s string, out rt.Outcome) {
	out = rt.Call(func() {
		switch len(b) {
		case 48:
			var a [48]byte
			copy(a[:], b)
			s = misc.SeedBinToMnemonic(a)
		case 51:
			var a [51]byte
			copy(a[:], b)
			s = misc.ExtendedSeedBinToMnemonic(a)
		default:
			s = misc.VerifBinToMnemonic(b)
		}
	})
	return
}

func libDecode(p string, size int) (b []byte, out rt.Outcome) {
	out = rt.Call(func() {
		switch size {
		case 48:
			a := misc.MnemonicToSeedBin(p)
			b = a[:]
		case 51:
			a := misc.MnemonicToExtendedSeedBin(p)
			b = a[:]
		default:
			b = misc.VerifMnemonicToBin(p)
		}
	})
	return
}

// c10RoundTrip: dec(enc(b)) == b, enc(b) == reference, enc(dec(p)) == p.
func c10RoundTrip(codec *mnemref.Codec, b []byte) string {
	p, out := libEncode(b)
	if out.Kind != rt.Value {
		return "encoding failed: " + out.String()
	}
	if want := codec.Encode(b); p != want {
		return fmt.Sprintf("phrase differs from the 12-bit big-endian grouping definition (first differing word %d)", firstDiffWord(p, want))
	}
	back, out := libDecode(p, len(b))
	if out.Kind != rt.Value {
		return "decoding its own phrase failed: " + out.String()
	}
	if !bytes.Equal(back, b) {
		return "dec(enc(b)) != b"
	}
	p2, out := libEncode(back)
	if out.Kind != rt.Value || p2 != p {
		return "enc(dec(p)) != p"
	}
	return ""
}

func firstDiffWord(a, b string) int {
	x, y := strings.Split(a, " "), strings.Split(b, " ")
	for i := 0; i < len(x) && i < len(y); i++ {
		if x[i] != y[i] {
			return i
		}
	}
	return -1
}

func c10Run(j *rt.Job, seed uint64, r *rt.Rec) {
	rng := rt.NewRand(seed, j.ID)
	codec := mnemref.New(qrl.WordList[:])
	switch j.Kind {
	case "table":
		r.Eval(int64(len(qrl.WordList)))
		probs := mnemref.TableProblems(qrl.WordList[:])
		for _, p := range probs {
			r.Violate("C10/table", "word list: "+p, jobCase(j), "", "")
		}
		r.DistinctN(int64(len(qrl.WordList)))
		r.Observe("exhaustive", "word list: 4096 entries checked pairwise distinct, non-empty, whitespace-free, lower case")
		r.Sample(map[string]interface{}{"table_entries": len(qrl.WordList), "first": qrl.WordList[0], "last": qrl.WordList[len(qrl.WordList)-1]})
	case "sweep":
		size, pos := j.Int("size"), j.Int("pos")
		for v := 0; v < 4096; v++ {
			b := rng.Bytes(size)
			setGroup(b, pos, v)
			r.Eval(1)
			if why := c10RoundTrip(codec, b); why != "" {
				r.Violate(fmt.Sprintf("C10/roundtrip/%d", size), fmt.Sprintf("%s (12-bit value %d at word position %d of a %d-byte string)", why, v, pos, size), c10Case{"c10rt", rt.Hex(b), "", size}, "", "")
				return
			}
		}
		r.DistinctN(4096)
		r.Observe("exhaustive", fmt.Sprintf("%d-byte strings: all 4096 values at word position %d", size, pos))
		r.Sample(map[string]interface{}{"size": size, "position": pos, "values": 4096})
	case "random":
		seen := map[string]string{}
		for t := 0; t < j.Int("n"); t++ {
			size := []int{48, 51}[t%2]
			b := rng.Bytes(size)
			switch t % 16 {
			case 2:
				b = make([]byte, size)
			case 4:
				b = bytesOf(0xFF, size)
			case 6: // neighbour of the previous: one bit different
				b = flipBit(rng.Bytes(size), rng.Intn(size*8))
			}
			r.Eval(1)
			if why := c10RoundTrip(codec, b); why != "" {
				r.Violate(fmt.Sprintf("C10/roundtrip/%d", size), why, c10Case{"c10rt", rt.Hex(b), "", size}, "", "")
				return
			}
			p, _ := libEncode(b)
			if prev, ok := seen[p]; ok && prev != string(b) {
				r.Violate("C10/injective", "two different byte strings have the same mnemonic", c10Case{"c10rt", rt.Hex(b), p, size}, "", "")
				return
			}
			seen[p] = string(b)
			// a one-bit neighbour must encode differently
			nb := flipBit(b, rng.Intn(size*8))
			if pn, _ := libEncode(nb); pn == p {
				r.Violate("C10/injective", "a byte string and its one-bit neighbour have the same mnemonic", c10Case{"c10rt", rt.Hex(nb), p, size}, "", "")
				return
			}
			r.Distinct(rt.Hex(b[:12]), size)
		}
		r.Sample(map[string]interface{}{"random_strings": j.Int("n"), "sizes": []int{48, 51}})
	case "extreme":
		// phrases at the extremes of total length: only longest words, only shortest words, one word repeated,
		// first / last table entries
		byLen := map[int][]int{}
		minL, maxL := 99, 0
		for i, w := range qrl.WordList {
			byLen[len(w)] = append(byLen[len(w)], i)
			if len(w) < minL {
				minL = len(w)
			}
			if len(w) > maxL {
				maxL = len(w)
			}
		}
		for t := 0; t < j.Int("n"); t++ {
			size := []int{48, 51}[t%2]
			words := size * 8 / 12
			b := make([]byte, size)
			var pool []int
			switch t % 6 {
			case 0, 1:
				pool = byLen[maxL]
			case 2:
				pool = byLen[minL]
			case 3:
				pool = []int{rng.Intn(4096)}
			case 4:
				pool = []int{0, 4095}
			default:
				pool = append(append([]int{}, byLen[maxL]...), byLen[minL]...)
			}
			for pos := 0; pos < words; pos++ {
				setGroup(b, pos, pool[rng.Intn(len(pool))])
			}
			r.Eval(1)
			if why := c10RoundTrip(codec, b); why != "" {
				r.Violate(fmt.Sprintf("C10/roundtrip/%d", size), why+" (phrase built only from longest / shortest / repeated / first-and-last table words)", c10Case{"c10rt", rt.Hex(b), "", size}, "", "")
				return
			}
			p, _ := libEncode(b)
			r.Max("max_phrase_length_seen", int64(len(p)))
			r.Distinct("extreme", rt.Hex(b), size)
		}
		r.Observe("word_lengths", fmt.Sprintf("min=%d max=%d longest_words=%d", minL, maxL, len(byLen[maxL])))
		r.Sample(map[string]interface{}{"extreme_phrases": j.Int("n"), "longest_word_len": maxL, "shortest_word_len": minL})
	case "block24":
		step := j.Int("step")
		if step == 0 {
			step = 1
		}
		lo, hi := j.Int("lo"), j.Int("hi")
		var n int64
		for v := lo + rng.Intn(step); v < hi; v += step {
			b := []byte{byte(v >> 16), byte(v >> 8), byte(v)}
			if why := c10RoundTrip(codec, b); why != "" {
				r.Violate("C10/roundtrip/3", fmt.Sprintf("%s (3-byte block %06x through the generic codec)", why, v), c10Case{"c10rt", rt.Hex(b), "", 3}, "", "")
				return
			}
			n++
		}
		r.Eval(n)
		r.DistinctN(n)
		if step == 1 {
			r.Observe("exhaustive", fmt.Sprintf("3-byte blocks [%06x,%06x) through the generic codec", lo, hi))
		}
		r.Sample(map[string]interface{}{"block24": []int{lo, hi}, "step": step})
	case "strict":
		c10Strict(j, rng, codec, r)
	}
}

// setGroup writes the 12-bit value v at word position pos of b (big-endian bit string).
func setGroup(b []byte, pos, v int) {
	for k := 0; k < 12; k++ {
		bit := pos*12 + k
		if (v>>(11-uint(k)))&1 == 1 {
			b[bit/8] |= 1 << (7 - uint(bit%8))
		} else {
			b[bit/8] &^= 1 << (7 - uint(bit%8))
		}
	}
}

// c10Judge: a phrase presented to the decoder of the given size; the strict reference decides.
func c10Judge(r *rt.Rec, codec *mnemref.Codec, class, phrase string, size int) bool {
	r.Eval(1)
	r.Count("presented_"+class, 1)
	got, out := libDecode(phrase, size)
	want, err := codec.Decode(phrase, size)
	cs := c10Case{"c10strict", "", phrase, size}
	if out.Kind == rt.Fault {
		r.Violate("C10/fault", "decoder ended in a runtime fault ("+class+"): "+out.Text, cs, "", out.String())
		return false
	}
	if err != nil {
		if out.Kind == rt.Value {
			r.Violate("C10/accepted-malformed/"+class, fmt.Sprintf("malformed phrase (%s: %v) was decoded to %d bytes instead of being refused", class, err, len(got)), cs, "refusal", rt.Short(got))
			return false
		}
		r.Count("refused_"+class, 1)
		r.Observe("refusal_texts", out.Text)
	} else {
		if out.Kind != rt.Value {
			r.Violate("C10/refused-valid/"+class, "a well-formed phrase was refused: "+out.Text, cs, "decoded", out.String())
			return false
		}
		if !bytes.Equal(got, want) {
			r.Violate("C10/wrong-bytes/"+class, "phrase decoded to other bytes than the definition gives", cs, rt.Hex(want), rt.Hex(got))
			return false
		}
		r.Count("decoded_"+class, 1)
	}
	r.Distinct(class, size, rt.Digest([]byte(phrase)))
	return true
}

func c10Strict(j *rt.Job, rng *rt.Rand, codec *mnemref.Codec, r *rt.Rec) {
	inTable := map[string]bool{}
	for _, w := range qrl.WordList {
		inTable[w] = true
	}
	for t := 0; t < j.Int("n"); t++ {
		size := []int{48, 51}[t%2]
		other := 99 - size
		b := rng.Bytes(size)
		phrase, _ := libEncode(b)
		words := strings.Split(phrase, " ")
		join := func(w []string) string { return strings.Join(w, " ") }
		cp := func() []string { return append([]string(nil), words...) }
		if !c10Judge(r, codec, "valid", phrase, size) {
			return
		}
		// wrong decoder for this length
		if !c10Judge(r, codec, "wrong-size-decoder", phrase, other) {
			return
		}
		i := rng.Intn(len(words))
		// unknown tokens
		for _, tok := range []string{"zzzzzz", "", "0", words[i] + "x", strings.ToUpper(words[i]), strings.Title(words[i]), words[i] + "\x00", "\xff\xfe", " " + words[i]} {
			w := cp()
			w[i] = tok
			if tok != "" && inTable[tok] {
				continue
			}
			if !c10Judge(r, codec, "unknown-token", join(w), size) {
				return
			}
		}
		// a table word with letters put in front of it / behind it / inside it (skipped when that is a table word)
		for k := 0; k < 40; k++ {
			w := cp()
			base := w[i]
			if k%4 == 3 {
				base = qrl.WordList[rng.Intn(4096)]
			}
			var tok string
			switch k % 5 {
			case 0:
				tok = string(rune('a'+k%26)) + base
			case 1:
				tok = string(rune('a'+rng.Intn(26))) + string(rune('a'+rng.Intn(26))) + base
			case 2:
				tok = "notaword" + string(rune('a'+rng.Intn(26))) + base
			case 3:
				tok = base + string(rune('a'+rng.Intn(26))) + string(rune('a'+rng.Intn(26)))
			default:
				at := rng.Intn(len(base) + 1)
				tok = base[:at] + string(rune('a'+rng.Intn(26))) + base[at:]
			}
			if inTable[tok] {
				continue
			}
			w[i] = tok
			if !c10Judge(r, codec, "word-with-extra-letters", join(w), size) {
				return
			}
		}
		// one letter changed (skipped when that is itself a table word)
		{
			w := cp()
			rs := []byte(w[i])
			rs[rng.Intn(len(rs))] = byte('a' + rng.Intn(26))
			if !inTable[string(rs)] {
				w[i] = string(rs)
				if !c10Judge(r, codec, "one-letter-changed", join(w), size) {
					return
				}
			}
		}
		// word counts
		for _, n := range []int{0, 1, 2, 31, 32, 33, 34, 35, 64, len(words) - 1, len(words) + 1, len(words) - 2, len(words) + 2} {
			var w []string
			for k := 0; k < n; k++ {
				w = append(w, words[k%len(words)])
			}
			if n == len(words) {
				continue
			}
			if !c10Judge(r, codec, "word-count", join(w), size) {
				return
			}
		}
		// spacing and case
		for _, p := range []string{
			strings.Replace(phrase, " ", "  ", 1), " " + phrase, phrase + " ", strings.Replace(phrase, " ", "\t", 1),
			strings.Replace(phrase, " ", "\n", 1), phrase + "\n", strings.ToUpper(phrase), strings.Title(phrase), phrase + "\x00",
			strings.Replace(phrase, " ", "", 1), strings.Replace(phrase, " ", ",", -1),
		} {
			if !c10Judge(r, codec, "spacing-case", p, size) {
				return
			}
		}
		// valid words, right count, but some separators are not a single blank
		for _, sep := range []string{"\t", "\n", "\r\n", "  ", "\v", "\u00a0", ""} {
			w := cp()
			at := 1 + rng.Intn(len(w)-1)
			p := strings.Join(w[:at], " ") + sep + strings.Join(w[at:], " ")
			if !c10Judge(r, codec, "other-separator", p, size) {
				return
			}
			// two of them, so that the count of blanks stays even
			at2 := 1 + rng.Intn(len(w)-1)
			if at2 != at {
				lo, hi := at, at2
				if lo > hi {
					lo, hi = hi, lo
				}
				p2 := strings.Join(w[:lo], " ") + sep + strings.Join(w[lo:hi], " ") + sep + strings.Join(w[hi:], " ")
				if !c10Judge(r, codec, "other-separator", p2, size) {
					return
				}
			}
		}
		// canary: after all those refusals a valid phrase must still decode to its bytes
		if !c10Judge(r, codec, "valid-after-refusals", phrase, size) {
			return
		}
		// words swapped: still well-formed, must decode to what the definition says (not a refusal)
		w := cp()
		a, bb := rng.Intn(len(w)), rng.Intn(len(w))
		w[a], w[bb] = w[bb], w[a]
		if !c10Judge(r, codec, "valid-permuted", join(w), size) {
			return
		}
	}
	r.Sample(map[string]interface{}{"base_phrases": j.Int("n"), "classes": "unknown token, one letter changed, word count, spacing/case, wrong-size decoder, permuted"})
}

func c10Replay(cs map[string]interface{}) (bool, string) {
	var c c10Case
	if err := rt.Decode(cs, &c); err != nil {
		return false, err.Error()
	}
	codec := mnemref.New(qrl.WordList[:])
	if c.Kind == "c10rt" {
		why := c10RoundTrip(codec, rt.UnHex(c.Bytes))
		return why != "", why
	}
	rec := rt.NewRec("replay")
	c10Judge(rec, codec, "replay", c.Phrase, c.Size)
	res := rec.Finish()
	if len(res.Violations) > 0 {
		return true, res.Violations[0].What
	}
	return false, "decoder agrees with the strict definition on this phrase"
}

package main

import (
	"bytes"
	"fmt"
	"os"
	"strings"

	"github.com/theQRL/go-qrllib/dilithium"

	"verifmon/ref/dilref"
	"verifmon/rt"
)

// C07 — keys and signatures equal the Dilithium5 specification (dilref), with
// boundary cases sought out, samplers fed directly, and call-order histories.

func init() {
	monitors["C07"] = &Monitor{Plan: c07Plan, Run: c07Run, Replay: c07Replay}
}

const corpusC07 = "/verif/corpus/c07_boundary.jsonl"

func c07Plan(tier string, seed uint64) (jobs []rt.Job) {
	q := tier == "quick"
	nb, keys, msgs := 48, 6, 8
	if !q {
		nb, keys, msgs = 640, 12, 10
	}
	for b := 0; b < nb; b++ {
		jobs = append(jobs, rt.Job{ID: fmt.Sprintf("C07/pairs/%d", b), Kind: "pairs", Cost: float64(keys*msgs) * 0.08,
			Args: map[string]interface{}{"batch": b, "keys": keys, "msgs": msgs}})
	}
	jobs = append(jobs, rt.Job{ID: "C07/samplers/edge", Kind: "samplers-edge", Cost: 2, Args: map[string]interface{}{}})
	ns := 4
	if !q {
		ns = 32
	}
	for b := 0; b < ns; b++ {
		jobs = append(jobs, rt.Job{ID: fmt.Sprintf("C07/samplers/random/%d", b), Kind: "samplers-random", Cost: 3, Args: map[string]interface{}{"batch": b, "n": 40}})
	}
	nh := 4
	if !q {
		nh = 16
	}
	for b := 0; b < nh; b++ {
		jobs = append(jobs, rt.Job{ID: fmt.Sprintf("C07/histories/%d", b), Kind: "histories", Cost: 4, Args: map[string]interface{}{"batch": b, "keys": 10, "msgs": 3}})
	}
	// committed boundary witnesses, split over a few jobs
	if lines := readCorpus(); len(lines) > 0 {
		per := 12
		for lo := 0; lo < len(lines); lo += per {
			jobs = append(jobs, rt.Job{ID: fmt.Sprintf("C07/corpus/%d", lo), Kind: "corpus", Cost: float64(per) * 0.1, Args: map[string]interface{}{"lo": lo, "hi": lo + per}})
		}
	}
	return
}

func readCorpus() []string {
	b, err := os.ReadFile(corpusC07)
	if err != nil {
		return nil
	}
	var out []string
	for _, l := range strings.Split(string(b), "\n") {
		if strings.TrimSpace(l) != "" {
			out = append(out, strings.TrimSpace(l))
		}
	}
	return out
}

type c07Case struct {
	Kind string `json:"kind"`
	Seed string `json:"seed"`
	Msg  string `json:"msg"`
}

// c07Pair compares one (seed,msg): pk, sk, signature. Returns the reference attempts.
func c07Pair(r *rt.Rec, lib *dilithium.Dilithium, ref *dilref.Key, seed [48]byte, msg []byte, origin string) bool {
	cs := c07Case{"c07pair", rt.Hex(seed[:]), rt.Hex(msg)}
	r.Eval(1)
	sig, err := lib.Sign(msg)
	if err != nil {
		r.Violate("C07/sign-error", "Sign returned an error: "+err.Error(), cs, "", "")
		return false
	}
	exp, att := ref.Sign(msg, dilref.Knobs{})
	r.Count("reference_attempts", int64(len(att)))
	r.Count(fmt.Sprintf("attempts_per_signature_%02d", minInt(len(att), 12)), 1)
	nontrivial := len(att) >= 2
	var kindsSeen []string
	for _, a := range att {
		r.Count("exit_"+a.Exit, 1)
		for _, k := range attemptBoundaries(a) {
			r.Count("boundary_"+k, 1)
			kindsSeen = append(kindsSeen, k)
			nontrivial = true
		}
	}
	if len(att) >= 30 {
		k := fmt.Sprintf("attempts>=%d", len(att)/8*8)
		r.Count("boundary_long_rejection_run", 1)
		r.Max("max_attempts_for_one_signature", int64(len(att)))
		kindsSeen = append(kindsSeen, k)
	}
	if len(kindsSeen) > 0 && len(msg) <= 140 {
		r.Observe("boundary_witnesses", fmt.Sprintf(`{"seed":"%s","msg":"%s","kinds":"%s"}`, cs.Seed, cs.Msg, strings.Join(kindsSeen, ",")))
	}
	if !bytes.Equal(sig[:], exp) {
		where := "challenge"
		for i := range exp {
			if sig[i] != exp[i] {
				switch {
				case i < 32:
					where = "challenge c~"
				case i < 32+7*640:
					where = fmt.Sprintf("z polynomial %d", (i-32)/640)
				default:
					where = "hint section"
				}
				break
			}
		}
		ex := "?"
		if len(att) > 0 {
			ex = fmt.Sprint(len(att), " reference attempts, exits ")
			for _, a := range att {
				ex += a.Exit + " "
			}
		}
		r.Violate("C07/signature", fmt.Sprintf("signature differs from the specification-level signer (first difference in %s; %s; boundaries %v; %s)", where, ex, kindsSeen, origin), cs, rt.Short(exp), rt.Short(sig[:]))
		return false
	}
	// again: identical
	sig2, _ := lib.Sign(msg)
	if sig2 != sig {
		r.Violate("C07/nondeterministic", "signing the same message twice gave different signatures", cs, "", "")
		return false
	}
	sealed, err := lib.Seal(msg)
	if err != nil || !bytes.Equal(sealed[:dilithium.CryptoBytes], exp) || !bytes.Equal(sealed[dilithium.CryptoBytes:], msg) {
		r.Violate("C07/seal", "Seal output is not reference signature || message", cs, "", "")
		return false
	}
	// a message this key has not seen, sealed FIRST: the caller then overwrites the returned slice and asks again
	m2 := append(append([]byte(nil), msg...), '#')
	firstSealed, err := lib.Seal(m2)
	if err == nil {
		keep := append([]byte(nil), firstSealed...)
		pkk := lib.GetPK()
		// (1) only the signature half is overwritten (the message half still reads m2)
		for i := 0; i < dilithium.CryptoBytes; i++ {
			firstSealed[i] ^= 0x5A
		}
		again, _ := lib.Seal(m2)
		sgn, _ := lib.Sign(m2)
		if !bytes.Equal(again, keep) || !bytes.Equal(sgn[:], keep[:dilithium.CryptoBytes]) || !dilithium.Verify(m2, sgn, &pkk) {
			r.Violate("C07/aliased-buffer", "after the caller overwrote the signature half of the slice returned by the first Seal of a message, sealing / signing the same message again gives a different result", c07Case{"c07pair", cs.Seed, rt.Hex(m2)}, "", "")
			return false
		}
		// (2) the message half is overwritten with another message of the same length, which is then signed
		m3 := append([]byte(nil), m2...)
		m3[len(m3)-1] = '%'
		copy(dilithium.ExtractMessage(firstSealed), m3)
		copy(dilithium.ExtractMessage(again), m3)
		sg3, _ := lib.Sign(m3)
		if !dilithium.Verify(m3, sg3, &pkk) || bytes.Equal(sg3[:], keep[:dilithium.CryptoBytes]) {
			r.Violate("C07/aliased-buffer", "after the caller rewrote the message half of a slice returned by Seal, signing that other message returns the earlier message's signature", c07Case{"c07pair", cs.Seed, rt.Hex(m3)}, "", "")
			return false
		}
		r.Count("seal_first_then_overwrite_then_repeat", 1)
	}
	// the caller owns what Seal returned: scribbling over it (signature half and message half, also through
	// the Extract* sub-slices) must not change what the key signs next
	for i := range sealed {
		sealed[i] ^= 0xA5
	}
	em := dilithium.ExtractMessage(sealed)
	for i := range em {
		em[i] = 0x11
	}
	sig3, _ := lib.Sign(msg)
	sealed2, _ := lib.Seal(msg)
	if !bytes.Equal(sig3[:], exp) || !bytes.Equal(sealed2[:dilithium.CryptoBytes], exp) || !bytes.Equal(sealed2[dilithium.CryptoBytes:], msg) {
		r.Violate("C07/aliased-buffer", "after the caller overwrote the slice returned by Seal, signing the same message again gives a different result", cs, "", "")
		return false
	}
	r.Count("signatures_equal", 1)
	if nontrivial {
		r.Distinct(cs.Seed, cs.Msg)
	}
	r.Sample(map[string]interface{}{"seed": cs.Seed[:16] + "..", "msg_len": len(msg), "attempts": len(att), "exits": exitList(att), "boundaries": kindsSeen, "sig_digest": rt.Digest(sig[:])})
	return true
}

func exitList(att []dilref.Attempt) (s []string) {
	for _, a := range att {
		s = append(s, a.Exit)
	}
	return
}
func minInt(a, b int) int {
	if a < b {
		return a
	}
	return b
}

func c07Key(r *rt.Rec, seed [48]byte) (*dilithium.Dilithium, *dilref.Key, bool) {
	lib := dilLibKey(seed)
	ref := dilRefKey(seed)
	pk, sk := lib.GetPK(), lib.GetSK()
	r.Eval(1)
	cs := c07Case{"c07key", rt.Hex(seed[:]), ""}
	if !bytes.Equal(pk[:], ref.PK) {
		r.Violate("C07/pk", "public key differs from the specification-level key generation", cs, rt.Short(ref.PK), rt.Short(pk[:]))
		return nil, nil, false
	}
	if !bytes.Equal(sk[:], ref.SK) {
		where := "?"
		for i := range ref.SK {
			if sk[i] != ref.SK[i] {
				switch {
				case i < 32:
					where = "rho"
				case i < 64:
					where = "key"
				case i < 96:
					where = "tr"
				case i < 96+7*96:
					where = "s1"
				case i < 96+15*96:
					where = "s2"
				default:
					where = "t0"
				}
				break
			}
		}
		r.Violate("C07/sk", "secret key differs from the specification-level key generation in "+where, cs, rt.Short(ref.SK), rt.Short(sk[:]))
		return nil, nil, false
	}
	r.Count("keys_equal", 1)
	if ref.EtaBytesMax > 136 {
		r.Count("keygen_eta_second_block_used", 1)
	}
	r.Count("uniform_candidates_rejected", int64(ref.Uniform.Rejected))
	r.Max("max_uniform_rejections_in_one_polynomial", int64(ref.Uniform.MaxPerPoly))
	if ref.WrapCount > 0 {
		r.Count("boundary_keygen_t_wraps_mod_q", 1)
		r.Observe("boundary_witnesses", fmt.Sprintf(`{"seed":"%s","msg":"","kinds":"keygen-wrap"}`, cs.Seed))
	}
	if ref.Uniform.CandQ > 0 {
		r.Count("boundary_uniform_cand=q(reject)", int64(ref.Uniform.CandQ))
		r.Observe("boundary_witnesses", fmt.Sprintf(`{"seed":"%s","msg":"","kinds":"uniform=q"}`, cs.Seed))
	}
	if ref.Uniform.CandQm1 > 0 {
		r.Count("boundary_uniform_cand=q-1(accept)", int64(ref.Uniform.CandQm1))
		r.Observe("boundary_witnesses", fmt.Sprintf(`{"seed":"%s","msg":"","kinds":"uniform=q-1"}`, cs.Seed))
	}
	return lib, ref, true
}

func c07Run(j *rt.Job, seed uint64, r *rt.Rec) {
	rng := rt.NewRand(seed, j.ID)
	switch j.Kind {
	case "pairs":
		seeds := [][48]byte{}
		if j.Int("batch") == 0 {
			seeds = append(seeds, fixedSeeds()...)
			var ks [48]byte
			copy(ks[:], rt.UnHex(katDilSeed))
			seeds = append(seeds, ks)
		}
		for len(seeds) < j.Int("keys") {
			seeds = append(seeds, rng.Seed48())
		}
		for _, s := range seeds {
			lib, ref, ok := c07Key(r, s)
			if !ok {
				return
			}
			for m := 0; m < j.Int("msgs"); m++ {
				if !c07Pair(r, lib, ref, s, dilMsg(rng, rng.Intn(40)), "random pair") {
					return
				}
			}
			if j.Int("batch")%8 == 0 {
				// a nil message and messages around 2^16 bytes
				for _, m := range [][]byte{nil, rng.Bytes(65535), rng.Bytes(65536), rng.Bytes(65537)} {
					if !c07Pair(r, lib, ref, s, m, "nil / 64 KiB message") {
						return
					}
				}
			}
		}
	case "corpus":
		lines := readCorpus()
		for i := j.Int("lo"); i < j.Int("hi") && i < len(lines); i++ {
			var w struct{ Seed, Msg, Kinds string }
			if err := jsonUnmarshal(lines[i], &w); err != nil {
				continue
			}
			var s [48]byte
			copy(s[:], rt.UnHex(w.Seed))
			lib, ref, ok := c07Key(r, s)
			if !ok {
				return
			}
			r.Count("corpus_entries", 1)
			if !c07Pair(r, lib, ref, s, rt.UnHex(w.Msg), "corpus witness "+w.Kinds) {
				return
			}
		}
	case "histories":
		c07Histories(j, rng, r)
	case "samplers-edge":
		c07SamplersEdge(r)
	case "samplers-random":
		c07SamplersRandom(j, rng, r)
	}
}

// c07Histories: several keys, messages signed in different orders, interleaved; results must not depend on order.
func c07Histories(j *rt.Job, rng *rt.Rand, r *rt.Rec) {
	nk, nm := j.Int("keys"), j.Int("msgs")
	var libs []*dilithium.Dilithium
	var seeds [][48]byte
	for k := 0; k < nk; k++ {
		s := rng.Seed48()
		seeds = append(seeds, s)
		libs = append(libs, dilLibKey(s))
	}
	msgs := make([][]byte, nm)
	for m := range msgs {
		msgs[m] = dilMsg(rng, rng.Intn(40))
	}
	first := map[[2]int][]byte{}
	// sealed messages are kept as returned (not copied): later calls must not change them
	type held struct {
		b []byte
		d string
	}
	var kept []held
	for k := 0; k < nk; k++ {
		sm, _ := libs[k].Seal(msgs[k%nm])
		kept = append(kept, held{sm, rt.Digest(sm)})
	}
	defer func() {
		for i, h := range kept {
			if rt.Digest(h.b) != h.d {
				r.Violate("C07/aliased-buffer", fmt.Sprintf("the sealed message returned earlier to the caller (key %d) was changed by later calls", i), jobCase(j), "", "")
				return
			}
		}
		r.Count("held_sealed_messages_unchanged", int64(len(kept)))
	}()
	for order := 0; order < 3; order++ {
		var seq [][2]int
		for k := 0; k < nk; k++ {
			for m := 0; m < nm; m++ {
				seq = append(seq, [2]int{k, m})
			}
		}
		switch order {
		case 1:
			for a, b := 0, len(seq)-1; a < b; a, b = a+1, b-1 {
				seq[a], seq[b] = seq[b], seq[a]
			}
		case 2:
			for a := len(seq) - 1; a > 0; a-- {
				b := rng.Intn(a + 1)
				seq[a], seq[b] = seq[b], seq[a]
			}
		}
		for _, km := range seq {
			sig, err := libs[km[0]].Sign(msgs[km[1]])
			r.Eval(1)
			if err != nil {
				r.Violate("C07/sign-error", "Sign error "+err.Error(), c07Case{"c07pair", rt.Hex(seeds[km[0]][:]), rt.Hex(msgs[km[1]])}, "", "")
				return
			}
			if f, ok := first[km]; ok {
				if !bytes.Equal(f, sig[:]) {
					r.Violate("C07/order-dependent", fmt.Sprintf("signature of the same (key,message) changed with call order (order %d)", order),
						jobCase(j), rt.Short(f), rt.Short(sig[:]))
					return
				}
				r.Count("order_repeats_equal", 1)
			} else {
				first[km] = append([]byte(nil), sig[:]...)
			}
		}
		r.Observe("orders", []string{"forward", "reverse", "shuffled"}[order])
	}
	// keys re-derived from their seeds after all that history must be the same keys
	for k := 0; k < nk; k++ {
		again := dilLibKey(seeds[k])
		r.Eval(1)
		if again.GetPK() != libs[k].GetPK() || again.GetSK() != libs[k].GetSK() {
			r.Violate("C07/order-dependent", "a key re-derived from its seed after other keys were used differs from the first derivation", jobCase(j), "", "")
			return
		}
		sig, _ := again.Sign(msgs[0])
		if !bytes.Equal(sig[:], first[[2]int{k, 0}]) {
			r.Violate("C07/order-dependent", "a key re-derived from its seed after other keys were used signs differently", jobCase(j), "", "")
			return
		}
		r.Count("rederived_keys_equal", 1)
	}
	// one reference comparison per key so the history results are anchored
	for k := 0; k < nk; k++ {
		ref := dilRefKey(seeds[k])
		exp, _ := ref.Sign(msgs[0], dilref.Knobs{})
		if !bytes.Equal(exp, first[[2]int{k, 0}]) {
			r.Violate("C07/signature", "signature differs from the specification-level signer (history job)", c07Case{"c07pair", rt.Hex(seeds[k][:]), rt.Hex(msgs[0])}, "", "")
			return
		}
		r.Distinct("hist", rt.Hex(seeds[k][:8]))
	}
	r.Sample(map[string]interface{}{"keys": nk, "messages": nm, "orders": 3})
}

func c07Replay(cs map[string]interface{}) (bool, string) {
	var c c07Case
	if err := rt.Decode(cs, &c); err != nil {
		return false, err.Error()
	}
	switch c.Kind {
	case "c07sampler":
		return c07ReplaySampler(cs)
	}
	var s [48]byte
	copy(s[:], rt.UnHex(c.Seed))
	rec := rt.NewRec("replay")
	lib, ref, ok := c07Key(rec, s)
	if ok && c.Kind == "c07pair" {
		c07Pair(rec, lib, ref, s, rt.UnHex(c.Msg), "replay")
	}
	res := rec.Finish()
	if len(res.Violations) > 0 {
		return true, res.Violations[0].What
	}
	return false, "key and signature equal the reference"
}

// Hidden developer sub-command: mon C07search <seed> <signatures> <min attempts>
// Looks, with the LIBRARY's signer and the attempt-counter hook, for (key, message) pairs whose rejection
// loop runs unusually long, and prints corpus lines. The library is only the search engine here: every
// witness is re-classified by dilref when a check uses it.
func init() {
	if len(os.Args) >= 5 && os.Args[1] == "C07search" {
		var seed uint64
		var n, min int
		fmt.Sscan(os.Args[2], &seed)
		fmt.Sscan(os.Args[3], &n)
		fmt.Sscan(os.Args[4], &min)
		dilithium.VerifCountAttempts = true
		rng := rt.NewRand(seed, "C07search")
		for done := 0; done < n; {
			ks := rng.Seed48()
			d := dilLibKey(ks)
			for m := 0; m < 2000 && done < n; m++ {
				msg := rng.Bytes(8)
				before := dilithium.VerifSignAttempts
				d.Sign(msg)
				done++
				if a := int(dilithium.VerifSignAttempts - before); a >= min {
					fmt.Printf(`{"seed":"%s","msg":"%s","kinds":"attempts>=%d"}`+"\n", rt.Hex(ks[:]), rt.Hex(msg), a/8*8)
				}
			}
		}
		os.Exit(0)
	}
}

// Hidden developer sub-command: mon C07keysearch <seed> <keys>
// Looks, with the REFERENCE key generation, for seeds whose t = A*s1 + s2 leaves [0,q) before the
// reduction at some coefficient (a representative boundary of key generation, about 2.5e-4 per key).
func init() {
	if len(os.Args) >= 4 && os.Args[1] == "C07keysearch" {
		var seed uint64
		var n int
		fmt.Sscan(os.Args[2], &seed)
		fmt.Sscan(os.Args[3], &n)
		rng := rt.NewRand(seed, "C07keysearch")
		for i := 0; i < n; i++ {
			ks := rng.Seed48()
			if k := dilRefKey(ks); k.WrapCount > 0 {
				fmt.Printf(`{"seed":"%s","msg":"","kinds":"keygen-wrap"}`+"\n", rt.Hex(ks[:]))
			}
		}
		os.Exit(0)
	}
}

package main

import (
	"bytes"
	"fmt"
	"os"
	"strings"

	"github.com/theQRL/go-qrllib/dilithium"

	"verifmon/ref/dilref"
	"verifmon/rt"
)

// C05 — Dilithium Verify is strict. Oracle: dilref.Verify (differential), and for
// constructions that violate exactly one verifier-side condition the expected
// answer is "rejected"; each such construction is first confirmed to be
// isolating (the reference accepts it when only that condition is left out).

func init() {
	monitors["C05"] = &Monitor{Plan: c05Plan, Run: c05Run, Replay: c05Replay}
}

const (
	dilSigBytes = 4595
	dilPKBytes  = 2592
	hintOff     = 32 + 7*640 // 4512: 75 position bytes then 8 cumulative counts
)

func c05Plan(tier string, seed uint64) (jobs []rt.Job) {
	q := tier == "quick"
	nk := 40
	if !q {
		nk = 600
	}
	for b := 0; b < nk; b++ {
		jobs = append(jobs, rt.Job{ID: fmt.Sprintf("C05/crafted/%d", b), Kind: "crafted", Cost: 2, Args: map[string]interface{}{"batch": b}})
	}
	// constructions under a degenerate public key (t1 = 0): every verifier-side condition in isolation
	nd := 8
	if !q {
		nd = 96
	}
	for b := 0; b < nd; b++ {
		jobs = append(jobs, rt.Job{ID: fmt.Sprintf("C05/degenerate/%d", b), Kind: "degenerate", Cost: 3, Args: map[string]interface{}{"batch": b}})
	}
	// exact-boundary R1 witnesses: committed corpus re-generated and judged; thorough also searches for new ones
	if n := len(readLines(corpusC05)); n > 0 {
		for lo := 0; lo < n; lo += 4 {
			jobs = append(jobs, rt.Job{ID: fmt.Sprintf("C05/r1corpus/%d", lo), Kind: "r1corpus", Cost: 1, Args: map[string]interface{}{"lo": lo, "hi": lo + 4}})
		}
	}
	if !q {
		for b := 0; b < 48; b++ {
			jobs = append(jobs, rt.Job{ID: fmt.Sprintf("C05/r1search/%d", b), Kind: "r1search", Cost: 20, Args: map[string]interface{}{"batch": b, "msgs": 30, "tries": 100}})
		}
	}
	// single-bit flips of whole signatures and public keys, split in ranges
	nsig := 2
	if !q {
		nsig = 20
	}
	for sI := 0; sI < nsig; sI++ {
		parts := 8
		for p := 0; p < parts; p++ {
			jobs = append(jobs, rt.Job{ID: fmt.Sprintf("C05/sigbits/%d/%d", sI, p), Kind: "sigbits", Cost: 2.5,
				Args: map[string]interface{}{"sig": sI, "lo": p * dilSigBytes * 8 / parts, "hi": (p + 1) * dilSigBytes * 8 / parts}})
		}
		pkparts := 2
		for p := 0; p < pkparts; p++ {
			step := 4
			if !q {
				step = 1
			}
			jobs = append(jobs, rt.Job{ID: fmt.Sprintf("C05/pkbits/%d/%d", sI, p), Kind: "pkbits", Cost: 2,
				Args: map[string]interface{}{"sig": sI, "lo": p * dilPKBytes * 8 / pkparts, "hi": (p + 1) * dilPKBytes * 8 / pkparts, "step": step}})
		}
	}
	return
}

const corpusC05 = "/verif/corpus/c05_r1_boundary.jsonl"

func readLines(path string) []string {
	b, err := os.ReadFile(path)
	if err != nil {
		return nil
	}
	var out []string
	for _, l := range strings.Split(string(b), "\n") {
		if strings.TrimSpace(l) != "" {
			out = append(out, strings.TrimSpace(l))
		}
	}
	return out
}

type c05Case struct {
	Kind  string `json:"kind"`
	Class string `json:"class"`
	PK    string `json:"pk"`
	Msg   string `json:"msg"`
	Sig   string `json:"sig"`
	Want  string `json:"want"` // "reject" | "ref"
}

// c05Judge presents one triple. want: "reject" = must not be accepted (also by the reference);
// "ref" = library must agree with the reference.
func c05Judge(r *rt.Rec, class string, pk, msg, sig []byte, want string, useRef bool) bool {
	r.Eval(1)
	r.Count("presented_"+class, 1)
	acc, out := dilVerify(msg, sig, pk)
	cs := func() c05Case { return c05Case{"c05", class, rt.Hex(pk), rt.Hex(msg), rt.Hex(sig), want} }
	if out.Kind != rt.Value {
		r.Violate("C05/verify-panics", "dilithium.Verify panicked: "+out.String(), cs(), "false", out.String())
		return false
	}
	// Open returns nothing exactly when Verify is false
	var pkA [dilPKBytes]byte
	copy(pkA[:], pk)
	var opened []byte
	oo := rt.Call(func() { opened = dilithium.Open(append(append([]byte(nil), sig...), msg...), &pkA) })
	if oo.Kind != rt.Value {
		r.Violate("C05/open-panics", "dilithium.Open panicked: "+oo.String(), cs(), "nil", oo.String())
		return false
	}
	if (opened != nil) != acc || (acc && !bytes.Equal(opened, msg)) {
		r.Violate("C05/open-vs-verify", fmt.Sprintf("Open and Verify disagree (%s): Verify=%v, Open returned %d bytes (nil=%v)", class, acc, len(opened), opened == nil), cs(), "", "")
		return false
	}
	refAcc, why := false, "not consulted"
	if useRef || want == "ref" {
		refAcc, why = dilref.Verify(pk, msg, sig)
		r.Count("reference_verifications", 1)
	}
	switch want {
	case "reject":
		if useRef && refAcc {
			r.Inconclusive("construction " + class + " is accepted by the reference; it does not violate the specification")
			return false
		}
		if acc {
			r.Violate("C05/accepted/"+class, "library accepts a signature the specification rejects ("+class+"; reference: "+why+")", cs(), "rejected", "accepted")
			return false
		}
		r.Count("rejected_"+class, 1)
	case "ref":
		if acc != refAcc {
			r.Violate("C05/differs/"+class, fmt.Sprintf("library Verify=%v, specification Verify=%v (%s; %s)", acc, refAcc, class, why), cs(), fmt.Sprint(refAcc), fmt.Sprint(acc))
			return false
		}
		if refAcc {
			r.Count("accepted_by_both_"+class, 1)
		} else {
			r.Count("rejected_by_both_"+class, 1)
			r.Observe("reference_reasons", class+":"+why)
		}
	}
	r.Distinct(class, rt.Digest(pk, msg, sig))
	return true
}

// hint helpers on a signature's 83-byte hint section
func hintCounts(sig []byte) (c [8]int) {
	for i := 0; i < 8; i++ {
		c[i] = int(sig[hintOff+75+i])
	}
	return
}

func c05Run(j *rt.Job, seed uint64, r *rt.Rec) {
	rng := rt.NewRand(seed, j.ID)
	switch j.Kind {
	case "crafted":
		c05Crafted(j, rng, r)
	case "degenerate":
		c05Degenerate(j, rng, r)
	case "r1search":
		// signer holding the key, skipping only the norm test, looking for |z|max exactly gamma1-beta
		ks := rng.Seed48()
		ref := dilRefKey(ks)
		for m := 0; m < j.Int("msgs"); m++ {
			msg := rng.Bytes(8)
			s1, att := ref.Sign(msg, dilref.Knobs{SkipZ: true, ExactZ: dilGamma1 - dilBeta, MaxTries: j.Int("tries")})
			r.Eval(int64(len(att)))
			r.Count("r1search_attempts", int64(len(att)))
			if s1 == nil {
				continue
			}
			last := att[len(att)-1]
			sign := "pos"
			if last.ZAtMaxNeg {
				sign = "neg"
				if last.ZAtMaxPos {
					sign = "both"
				}
			}
			r.Count("r1search_hits_"+sign, 1)
			r.Observe("r1_witnesses", fmt.Sprintf(`{"seed":"%s","msg":"%s","kappa":%d,"sign":"%s"}`, rt.Hex(ks[:]), rt.Hex(msg), last.Kappa, sign))
			if !c05Judge(r, "R1-z-exactly-at-bound-"+sign, ref.PK, msg, s1, "reject", true) {
				return
			}
		}
		r.Sample(map[string]interface{}{"r1search": j.Int("batch"), "seed": rt.Hex(ks[:8])})
	case "r1corpus":
		lines := readLines(corpusC05)
		for i := j.Int("lo"); i < j.Int("hi") && i < len(lines); i++ {
			var w struct {
				Seed, Msg, Sign string
				Kappa           int
			}
			if err := jsonUnmarshal(lines[i], &w); err != nil {
				continue
			}
			var ks [48]byte
			copy(ks[:], rt.UnHex(w.Seed))
			ref := dilRefKey(ks)
			msg := rt.UnHex(w.Msg)
			s1, att := ref.Sign(msg, dilref.Knobs{SkipZ: true, ExactZ: dilGamma1 - dilBeta, StartKappa: w.Kappa, MaxTries: 1})
			if s1 == nil || len(att) == 0 {
				r.Count("r1corpus_stale_entries", 1)
				continue
			}
			last := att[len(att)-1]
			if ok, _ := dilref.VerifyLoose(ref.PK, msg, s1, dilref.Loose{ZNorm: true}); !ok {
				r.Inconclusive("R1 corpus witness is not isolating")
				return
			}
			sign := "pos"
			if last.ZAtMaxNeg {
				sign = "neg"
			}
			r.Count("R1_exact_bound_isolating_confirmed_"+sign, 1)
			if !c05Judge(r, "R1-z-exactly-at-bound-"+sign, ref.PK, msg, s1, "reject", true) {
				return
			}
			r.Sample(map[string]interface{}{"r1_exact_bound_witness": w.Seed[:16] + "..", "kappa": w.Kappa, "extreme_coefficient": sign, "zmax": last.MaxZ})
		}
	case "sigbits", "pkbits":
		// the signature is a function of (seed, sig number) only, so all ranges flip the same signature
		krng := rt.NewRand(seed, fmt.Sprintf("C05/bits/%d", j.Int("sig")))
		ks := krng.Seed48()
		rk := dilRefKey(ks)
		var pk [dilPKBytes]byte
		copy(pk[:], rk.PK)
		msg := dilMsg(krng, krng.Intn(40))
		rsig, _ := rk.Sign(msg, dilref.Knobs{})
		var sig [dilSigBytes]byte
		copy(sig[:], rsig)
		if ok, _ := dilVerify(msg, sig[:], pk[:]); !ok {
			r.Violate("C05/valid-rejected", "an honest signature does not verify", c05Case{"c05", "honest", rt.Hex(pk[:]), rt.Hex(msg), rt.Hex(sig[:]), "accept"}, "", "")
			return
		}
		lo, hi := j.Int("lo"), j.Int("hi")
		step := 1
		if j.Kind == "pkbits" {
			step = j.Int("step")
		}
		cnt := 0
		for bit := lo + rng.Intn(step); bit < hi; bit += step {
			cnt++
			if cnt%50 == 0 {
				// canary: the honest triple must still verify after whatever the verifier has seen in between
				if ok, _ := dilVerify(msg, sig[:], pk[:]); !ok {
					r.Violate("C05/valid-rejected-after-history", "an honest signature stopped verifying after invalid inputs were presented to the verifier", jobCase(j), "accepted", "rejected")
					return
				}
				r.Count("canary_honest_reverified", 1)
			}
			useRef := rng.Intn(400) == 0
			if j.Kind == "sigbits" {
				region := "z"
				if bit < 256 {
					region = "c"
				} else if bit >= hintOff*8 {
					region = "hint"
				}
				if !c05Judge(r, "sigflip-"+region, pk[:], msg, flipBit(sig[:], bit), "reject", useRef) {
					return
				}
			} else {
				region := "t1"
				if bit < 256 {
					region = "rho"
				}
				if !c05Judge(r, "pkflip-"+region, flipBit(pk[:], bit), msg, sig[:], "reject", useRef) {
					return
				}
			}
		}
		r.Observe("bit_ranges", fmt.Sprintf("%s sig#%d [%d,%d) step %d", j.Kind, j.Int("sig"), lo, hi, step))
		r.Sample(map[string]interface{}{"kind": j.Kind, "sig": j.Int("sig"), "bits": []int{lo, hi}, "msg_len": len(msg), "all_rejected": true})
	}
}

func c05Crafted(j *rt.Job, rng *rt.Rand, r *rt.Rec) {
	ks := rng.Seed48()
	if j.Int("batch") < 3 {
		ks = fixedSeeds()[j.Int("batch")]
	}
	// keys and honest signatures come from the REFERENCE (dilref), so that the verdicts depend on the
	// library's verifier only; one library-made signature is judged in addition
	ref := dilRefKey(ks)
	pk := ref.PK
	var pkA [dilPKBytes]byte
	copy(pkA[:], pk)
	msg := dilMsg(rng, rng.Intn(40))
	sig, _ := ref.Sign(msg, dilref.Knobs{})
	lib := dilLibKey(ks)
	if lsig, err := lib.Sign(msg); err == nil {
		lpk := lib.GetPK()
		if !c05Judge(r, "library-made-triple", lpk[:], msg, lsig[:], "ref", true) {
			return
		}
	}
	if !c05Judge(r, "honest", pk, msg, sig, "ref", true) {
		return
	}
	mut := func() []byte { return append([]byte(nil), sig...) }

	// R1: out-of-range response from a signer that skips only the z-norm test
	for t := 0; t < 2; t++ {
		m1 := dilMsg(rng, rng.Intn(40))
		s1, att := ref.Sign(m1, dilref.Knobs{SkipZ: true, MaxTries: 200})
		if s1 == nil {
			r.Count("R1_search_gave_up", 1)
			continue
		}
		last := att[len(att)-1]
		if ok, _ := dilref.VerifyLoose(pk, m1, s1, dilref.Loose{ZNorm: true}); !ok {
			r.Inconclusive("R1 construction is not isolating: reference without the norm test rejects it")
			return
		}
		r.Count("R1_isolating_confirmed", 1)
		r.Max("max_R1_zmax_minus_bound", last.MaxZ-(dilGamma1-dilBeta))
		if last.MaxZ == dilGamma1-dilBeta {
			r.Count("R1_exactly_at_bound", 1)
		}
		if !c05Judge(r, "R1-z-out-of-range", pk, m1, s1, "reject", true) {
			return
		}
	}

	counts := hintCounts(sig)
	total := counts[7]
	// R2: swap two adjacent hint positions inside one row
	prev := 0
	for row := 0; row < 8; row++ {
		if counts[row]-prev >= 2 {
			s2 := mut()
			a := hintOff + prev + rng.Intn(counts[row]-prev-1)
			s2[a], s2[a+1] = s2[a+1], s2[a]
			if ok, _ := dilref.VerifyLoose(pk, msg, s2, dilref.Loose{Unordered: true}); ok {
				r.Count("R2_isolating_confirmed", 1)
			} else {
				r.Inconclusive("R2 construction is not isolating")
				return
			}
			if !c05Judge(r, "R2-unordered-hints", pk, msg, s2, "reject", true) {
				return
			}
			break
		}
		prev = counts[row]
	}
	// R3: duplicate one hint position (needs total weight < omega): a random one, the first and the last of a
	// row, and -- on a signature searched for the purpose -- position 0 and position 255
	dup := func(base []byte, bcounts [8]int, row, at int) []byte {
		s3 := append([]byte(nil), base...)
		copy(s3[hintOff+at+1:hintOff+75], base[hintOff+at:hintOff+74])
		s3[hintOff+at+1] = base[hintOff+at]
		for rr := row; rr < 8; rr++ {
			s3[hintOff+75+rr]++
		}
		return s3
	}
	judgeDup := func(class string, m []byte, base []byte, bcounts [8]int, row, at int) bool {
		s3 := dup(base, bcounts, row, at)
		if ok, _ := dilref.VerifyLoose(pk, m, s3, dilref.Loose{Duplicate: true}); !ok {
			r.Inconclusive(class + " construction is not isolating")
			return false
		}
		r.Count("R3_isolating_confirmed", 1)
		return c05Judge(r, class, pk, m, s3, "reject", true)
	}
	if total < dilOmega && total > 0 {
		row := 0
		for counts[row] == 0 {
			row++
		}
		start := 0
		if row > 0 {
			start = counts[row-1]
		}
		if !judgeDup("R3-duplicated-hint", msg, sig, counts, row, start+rng.Intn(counts[row]-start)) ||
			!judgeDup("R3-duplicated-first-of-row", msg, sig, counts, row, start) ||
			!judgeDup("R3-duplicated-last-of-row", msg, sig, counts, row, counts[row]-1) {
			return
		}
	}
	found0, found255 := false, false
	for t := 0; t < 150 && !(found0 && found255); t++ {
		m2 := rng.Bytes(6)
		sgs, _ := ref.Sign(m2, dilref.Knobs{})
		var sg [dilSigBytes]byte
		copy(sg[:], sgs)
		c2 := hintCounts(sg[:])
		if c2[7] >= dilOmega {
			continue
		}
		prev := 0
		for row := 0; row < 8; row++ {
			if c2[row] > prev {
				if sg[hintOff+prev] == 0 && !found0 {
					found0 = true
					if !judgeDup("R3-duplicated-position-0", m2, sg[:], c2, row, prev) {
						return
					}
				}
				if sg[hintOff+c2[row]-1] == 255 && !found255 {
					found255 = true
					if !judgeDup("R3-duplicated-position-255", m2, sg[:], c2, row, c2[row]-1) {
						return
					}
				}
			}
			prev = c2[row]
		}
	}
	// R4: non-zero padding in an unused position slot
	if total < dilOmega {
		for _, v := range []byte{1, 0x80, 0xFF, byte(1 + rng.Intn(255))} {
			s4 := mut()
			s4[hintOff+total+rng.Intn(dilOmega-total)] = v
			if ok, _ := dilref.VerifyLoose(pk, msg, s4, dilref.Loose{Padding: true}); !ok {
				r.Inconclusive("R4 construction is not isolating")
				return
			}
			r.Count("R4_isolating_confirmed", 1)
			if !c05Judge(r, "R4-nonzero-padding", pk, msg, s4, "reject", true) {
				return
			}
		}
	}
	// R5/R6: counts over omega, decreasing, moved between rows (differential)
	for t := 0; t < 10; t++ {
		s5 := mut()
		row := rng.Intn(8)
		switch t % 5 {
		case 0:
			s5[hintOff+75+row] = byte(76 + rng.Intn(180))
		case 1:
			s5[hintOff+75+row] = byte(rng.Intn(76))
		case 2:
			if row > 0 && counts[row-1] > 0 {
				s5[hintOff+75+row] = byte(counts[row-1] - 1)
			}
		case 3:
			if row < 7 {
				s5[hintOff+75+row], s5[hintOff+75+row+1] = s5[hintOff+75+row+1], s5[hintOff+75+row]
			}
		default:
			for rr := row; rr < 8; rr++ {
				s5[hintOff+75+rr] = 75
			}
		}
		if !c05Judge(r, "R5R6-counts", pk, msg, s5, "ref", true) {
			return
		}
	}
	// z edited to the extreme encodings; c replaced; random garbage in each region
	for t := 0; t < 6; t++ {
		s6 := mut()
		switch t {
		case 0:
			copy(s6[32+rng.Intn(7*128)*5:], []byte{0, 0, 0, 0, 0}) // two coefficients = +gamma1
		case 1:
			copy(s6[32+rng.Intn(7*128)*5:], []byte{0xFF, 0xFF, 0xFF, 0xFF, 0xFF}) // = -(gamma1-1)
		case 2:
			copy(s6[:32], rng.Bytes(32))
		case 3:
			copy(s6[32:], rng.Bytes(640))
		case 4:
			copy(s6[hintOff:], rng.Bytes(83))
		case 5:
			s6 = rng.Bytes(dilSigBytes)
		}
		if !c05Judge(r, "edited-regions", pk, msg, s6, "ref", true) {
			return
		}
	}
	// message edits, other key, other message
	if len(msg) > 0 {
		if !c05Judge(r, "message-bitflip", pk, flipBit(msg, rng.Intn(len(msg)*8)), sig, "reject", true) {
			return
		}
		if !c05Judge(r, "message-truncated", pk, msg[:len(msg)-1], sig, "reject", false) {
			return
		}
	}
	if !c05Judge(r, "message-extended", pk, append(append([]byte(nil), msg...), 0), sig, "reject", false) {
		return
	}
	ok2 := dilRefKey(rng.Seed48())
	pk2 := ok2.PK
	sigOther, _ := ok2.Sign(msg, dilref.Knobs{})
	if !c05Judge(r, "other-key-signature", pk, msg, sigOther, "reject", true) {
		return
	}
	if !c05Judge(r, "other-key-pk", pk2, msg, sig, "reject", false) {
		return
	}
	msgB := append([]byte("other:"), msg...)
	sigB, _ := ref.Sign(msgB, dilref.Knobs{})
	if !c05Judge(r, "other-message-signature", pk, msg, sigB, "reject", false) {
		return
	}
	// Open on truncated / extended sealed messages
	sealed := append(append([]byte(nil), sig...), msg...)
	for _, n := range []int{0, 1, 31, 32, 4594, dilSigBytes - 1} {
		var o []byte
		out := rt.Call(func() { o = dilithium.Open(sealed[:n], &pkA) })
		r.Eval(1)
		if out.Kind != rt.Value || o != nil {
			r.Violate("C05/open-truncated", fmt.Sprintf("Open of a %d-byte prefix of a sealed message returned %v / %s", n, o != nil, out), jobCase(j), "nil", "")
			return
		}
		r.Count("open_truncated_nil", 1)
	}
	if len(msg) > 0 {
		if o := dilithium.Open(sealed[:len(sealed)-1], &pkA); o != nil {
			r.Violate("C05/open-truncated", "Open accepts a sealed message with its last byte removed", jobCase(j), "nil", "")
			return
		}
	}
	if o := dilithium.Open(append(append([]byte(nil), sealed...), 0x00), &pkA); o != nil {
		r.Violate("C05/open-extended", "Open accepts a sealed message with a byte appended", jobCase(j), "nil", "")
		return
	}
	// cold keys: the FIRST thing the verifier sees under a fresh public key is a malformed signature
	// (all-zero, random, broken hint section, out-of-range response); the honest signature comes second
	for v := 0; v < 4; v++ {
		ck := dilRefKey(rng.Seed48())
		var cpk [dilPKBytes]byte
		copy(cpk[:], ck.PK)
		cm := rng.Bytes(9)
		css, _ := ck.Sign(cm, dilref.Knobs{})
		var cs [dilSigBytes]byte
		copy(cs[:], css)
		var bad []byte
		switch v {
		case 0:
			bad = make([]byte, dilSigBytes)
		case 1:
			bad = rng.Bytes(dilSigBytes)
		case 2:
			bad = append([]byte(nil), cs[:]...)
			bad[hintOff+75] = 200
		default:
			bad = append([]byte(nil), cs[:]...)
			copy(bad[32:37], []byte{0, 0, 0, 0, 0}) // two coefficients = +gamma1
		}
		if !c05Judge(r, "cold-key-malformed-first", cpk[:], cm, bad, "reject", false) {
			return
		}
		if ok, _ := dilVerify(cm, cs[:], cpk[:]); !ok {
			r.Violate("C05/valid-rejected-after-history", "the honest signature of a key is rejected when the first signature presented under that key was malformed", jobCase(j), "accepted", "rejected")
			return
		}
		var cpkA [dilPKBytes]byte = cpk
		if o := dilithium.Open(append(append([]byte(nil), cs[:]...), cm...), &cpkA); !bytes.Equal(o, cm) {
			r.Violate("C05/valid-rejected-after-history", "Open refuses the honest sealed message of a key after a malformed one was presented first", jobCase(j), "message", "nil")
			return
		}
		r.Count("cold_key_sequences", 1)
	}
	// canary: after everything above the honest triple must still verify
	if ok, _ := dilVerify(msg, sig, pk); !ok {
		r.Violate("C05/valid-rejected-after-history", "an honest signature stopped verifying after invalid inputs were presented to the verifier", jobCase(j), "accepted", "rejected")
		return
	}
	r.Count("canary_honest_reverified", 1)
	r.Sample(map[string]interface{}{"seed": rt.Hex(ks[:8]) + "..", "msg_len": len(msg), "hint_weight": total, "hint_counts": counts})
}

func c05Replay(cs map[string]interface{}) (bool, string) {
	var c c05Case
	if err := rt.Decode(cs, &c); err != nil {
		return false, err.Error()
	}
	pk, msg, sig := rt.UnHex(c.PK), rt.UnHex(c.Msg), rt.UnHex(c.Sig)
	acc, out := dilVerify(msg, sig, pk)
	refAcc, why := dilref.Verify(pk, msg, sig)
	d := fmt.Sprintf("class %s: library Verify=%v (%s), reference Verify=%v (%s)", c.Class, acc, out, refAcc, why)
	if out.Kind != rt.Value {
		return true, d
	}
	if c.Want == "accept" {
		return !acc, d
	}
	return acc != refAcc, d
}

// Package rt: shared runtime for the monitors — deterministic PRNG, outcome
// classification, result recording. Single-goroutine by design (parallelism is
// by process, never by goroutine, except in the C15 monitor which owns its own
// per-goroutine shards).
package rt

import (
	"crypto/sha256"
	"encoding/hex"
	"encoding/json"
	"fmt"
	"os"
	"runtime"
	"sort"
)

// ---------------------------------------------------------------- PRNG

type Rand struct{ s uint64 }

func mix(z uint64) uint64 {
	z = (z ^ (z >> 30)) * 0xbf58476d1ce4e5b9
	z = (z ^ (z >> 27)) * 0x94d049bb133111eb
	return z ^ (z >> 31)
}

// NewRand derives a stream from the run seed and a label (property/job name).
func NewRand(seed uint64, label string) *Rand {
	h := sha256.Sum256([]byte(label))
	var l uint64
	for i := 0; i < 8; i++ {
		l = l<<8 | uint64(h[i])
	}
	return &Rand{s: mix(seed*0x9e3779b97f4a7c15+1) ^ l}
}

func (r *Rand) U64() uint64 {
	r.s += 0x9e3779b97f4a7c15
	return mix(r.s)
}
func (r *Rand) U32() uint32 { return uint32(r.U64() >> 32) }
func (r *Rand) Intn(n int) int {
	if n <= 0 {
		return 0
	}
	return int(r.U64() % uint64(n))
}
func (r *Rand) Bool() bool { return r.U64()&1 == 1 }
func (r *Rand) Bytes(n int) []byte {
	b := make([]byte, n)
	for i := 0; i < n; i += 8 {
		v := r.U64()
		for j := 0; j < 8 && i+j < n; j++ {
			b[i+j] = byte(v >> (8 * uint(j)))
		}
	}
	return b
}
func (r *Rand) Seed48() (s [48]byte) { copy(s[:], r.Bytes(48)); return }

// ---------------------------------------------------------------- outcomes

const (
	Value   = "value"
	Refusal = "refusal" // panic with a non-runtime.Error value (the library's own messages)
	Fault   = "fault"   // panic with a runtime.Error
)

type Outcome struct {
	Kind string
	Text string
}

func (o Outcome) String() string {
	if o.Kind == Value {
		return Value
	}
	return o.Kind + ":" + o.Text
}

// Call runs f and classifies how it ended.
func Call(f func()) (o Outcome) {
	defer func() {
		if v := recover(); v != nil {
			if re, ok := v.(runtime.Error); ok {
				o = Outcome{Fault, re.Error()}
			} else {
				o = Outcome{Refusal, fmt.Sprint(v)}
			}
		}
	}()
	f()
	return Outcome{Kind: Value}
}

// ---------------------------------------------------------------- results

type Violation struct {
	Key      string      `json:"key"`  // stable identity used by KNOWN_FINDINGS matching
	What     string      `json:"what"` // one line
	Case     interface{} `json:"case"` // self-contained replay input (object with "kind")
	Expected string      `json:"expected,omitempty"`
	Observed string      `json:"observed,omitempty"`
}

type Result struct {
	Job          string              `json:"job"`
	Evaluations  int64               `json:"evaluations"`
	Distinct     int64               `json:"distinct_nontrivial"`
	Counters     map[string]int64    `json:"counters"`
	Sets         map[string][]string `json:"sets"`
	Samples      []interface{}       `json:"samples"`
	Violations   []Violation         `json:"violations"`
	Suppressed   int64               `json:"violations_suppressed"`
	Inconclusive []string            `json:"inconclusive"`
}

type Rec struct {
	res      Result
	distinct map[[12]byte]struct{}
	sets     map[string]map[string]struct{}
	MaxViol  int
	MaxSamp  int
}

func NewRec(job string) *Rec {
	return &Rec{res: Result{Job: job, Counters: map[string]int64{}},
		distinct: map[[12]byte]struct{}{}, sets: map[string]map[string]struct{}{}, MaxViol: 12, MaxSamp: 3}
}

func (r *Rec) Eval(n int64) { r.res.Evaluations += n }

// Distinct records a non-trivial case identity; duplicates are not counted twice.
func (r *Rec) Distinct(parts ...interface{}) {
	h := sha256.Sum256([]byte(fmt.Sprint(parts...)))
	var k [12]byte
	copy(k[:], h[:])
	r.distinct[k] = struct{}{}
}

// DistinctN adds n cases known to be pairwise distinct by construction (dense sweeps).
func (r *Rec) DistinctN(n int64) { r.res.Distinct += n }

func (r *Rec) Count(name string, n int64) { r.res.Counters[name] += n }
func (r *Rec) Max(name string, v int64) {
	if v > r.res.Counters[name] {
		r.res.Counters[name] = v
	}
}

// Observe adds a label to a small named set (configurations seen, refusal texts ...).
func (r *Rec) Observe(set, label string) {
	m := r.sets[set]
	if m == nil {
		m = map[string]struct{}{}
		r.sets[set] = m
	}
	if len(m) < 400 {
		m[label] = struct{}{}
	}
}

func (r *Rec) Sample(v interface{}) {
	if len(r.res.Samples) < r.MaxSamp {
		r.res.Samples = append(r.res.Samples, v)
	}
}

func (r *Rec) Violate(key, what string, c interface{}, expected, observed string) {
	if len(r.res.Violations) >= r.MaxViol {
		r.res.Suppressed++
		return
	}
	r.res.Violations = append(r.res.Violations, Violation{key, what, c, expected, observed})
}

func (r *Rec) NViol() int { return len(r.res.Violations) + int(r.res.Suppressed) }

func (r *Rec) Inconclusive(why string) { r.res.Inconclusive = append(r.res.Inconclusive, why) }

func (r *Rec) Finish() *Result {
	r.res.Distinct += int64(len(r.distinct))
	r.res.Sets = map[string][]string{}
	for k, m := range r.sets {
		var l []string
		for s := range m {
			l = append(l, s)
		}
		sort.Strings(l)
		r.res.Sets[k] = l
	}
	if r.res.Samples == nil {
		r.res.Samples = []interface{}{}
	}
	if r.res.Violations == nil {
		r.res.Violations = []Violation{}
	}
	if r.res.Inconclusive == nil {
		r.res.Inconclusive = []string{}
	}
	return &r.res
}

func (r *Rec) Write(path string) error {
	b, err := json.Marshal(r.Finish())
	if err != nil {
		return err
	}
	if path == "" || path == "-" {
		_, err = os.Stdout.Write(append(b, '\n'))
		return err
	}
	return os.WriteFile(path, b, 0o644)
}

// ---------------------------------------------------------------- jobs

type Job struct {
	ID   string                 `json:"id"`
	Kind string                 `json:"kind"`
	Cost float64                `json:"cost"`           // rough CPU seconds, for scheduling (largest first)
	Race bool                   `json:"race,omitempty"` // run with the -race binary
	Args map[string]interface{} `json:"args"`
}

func (j *Job) Int(k string) int {
	switch v := j.Args[k].(type) {
	case float64:
		return int(v)
	case int:
		return v
	case int64:
		return int(v)
	}
	return 0
}
func (j *Job) Str(k string) string {
	s, _ := j.Args[k].(string)
	return s
}
func (j *Job) Bool(k string) bool {
	b, _ := j.Args[k].(bool)
	return b
}

// ---------------------------------------------------------------- helpers

func Hex(b []byte) string { return hex.EncodeToString(b) }
func UnHex(s string) []byte {
	b, err := hex.DecodeString(s)
	if err != nil {
		panic("rt.UnHex: " + err.Error())
	}
	return b
}
func Short(b []byte) string {
	if len(b) <= 24 {
		return Hex(b)
	}
	return fmt.Sprintf("%s..(%d bytes)..%s", Hex(b[:8]), len(b), Hex(b[len(b)-8:]))
}
func Digest(b ...[]byte) string {
	h := sha256.New()
	for _, x := range b {
		h.Write(x)
	}
	return hex.EncodeToString(h.Sum(nil)[:12])
}

// Decode re-marshals a generic JSON value into a typed struct.
func Decode(v interface{}, into interface{}) error {
	b, err := json.Marshal(v)
	if err != nil {
		return err
	}
	return json.Unmarshal(b, into)
}

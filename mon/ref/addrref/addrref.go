// Package addrref: reference address derivation and descriptor layout.
package addrref

import (
	"crypto/sha256"

	"golang.org/x/crypto/sha3"
)

// Descriptor fields as stated: byte0 = sigType<<4 | hash ; byte1 = addrFormat<<4 | height/2 ; byte2 = 0.
type Desc struct{ Hash, SigType, Height, AddrFormat int }

func (d Desc) Bytes() [3]byte {
	return [3]byte{byte(d.SigType<<4 | d.Hash&15), byte(d.AddrFormat<<4 | (d.Height/2)&15), 0}
}
func ParseDesc(b []byte) Desc {
	return Desc{Hash: int(b[0] & 15), SigType: int(b[0] >> 4), Height: int(b[1]&15) * 2, AddrFormat: int(b[1] >> 4)}
}

// XMSSAddress = 3 descriptor bytes (byte 2 zeroed as the encoder writes it) || last 17 bytes of SHAKE-256(pk).
func XMSSAddress(pk []byte) []byte {
	d := ParseDesc(pk[:3]).Bytes()
	h := make([]byte, 32)
	sha3.ShakeSum256(h, pk)
	return append(d[:], h[15:]...)
}

// DilithiumAddress = 0x10 || last 19 bytes of SHAKE-256(pk).
func DilithiumAddress(pk []byte) []byte {
	h := make([]byte, 32)
	sha3.ShakeSum256(h, pk)
	return append([]byte{1 << 4}, h[13:]...)
}

func IsValidXMSS(a []byte) bool {
	d := ParseDesc(a[:3])
	return d.SigType == 0 && d.AddrFormat == 0
}
func IsValidDilithium(a []byte) bool { return a[0] == 1<<4 }

// LegacyAddress = desc || SHA-256(pk) || last 4 bytes of SHA-256(first 35 bytes).
func LegacyAddress(pk []byte) []byte {
	d := ParseDesc(pk[:3]).Bytes()
	h := sha256.Sum256(pk)
	a := append(d[:], h[:]...)
	c := sha256.Sum256(a)
	return append(a, c[28:]...)
}
func LegacyValid(a []byte) bool {
	if len(a) != 39 {
		return false
	}
	if ParseDesc(a[:3]).AddrFormat != 0 {
		return false
	}
	c := sha256.Sum256(a[:35])
	for i := 0; i < 4; i++ {
		if a[35+i] != c[28+i] {
			return false
		}
	}
	return true
}

// LegacyChecksum: last four bytes of SHA-256 over the first 35 bytes.
func LegacyChecksum(prefix35 []byte) []byte {
	c := sha256.Sum256(prefix35[:35])
	return append([]byte(nil), c[28:]...)
}

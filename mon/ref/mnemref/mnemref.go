// Package mnemref is a strict bit-level reference for the QRL mnemonic codec:
// the byte string read as one big-endian bit string, cut into 12-bit groups,
// each group an index into a 4096-word table.
package mnemref

import (
	"errors"
	"strings"
)

type Codec struct {
	words []string
	index map[string]int
}

// New checks nothing about the table; TableProblems does.
func New(words []string) *Codec {
	c := &Codec{words: words, index: map[string]int{}}
	for i, w := range words {
		if _, dup := c.index[w]; !dup {
			c.index[w] = i
		}
	}
	return c
}

// TableProblems lists violations of: 4096 entries, pairwise distinct, non-empty,
// no whitespace, no upper-case letters.
func TableProblems(words []string) (p []string) {
	if len(words) != 4096 {
		p = append(p, "table size is not 4096")
	}
	seen := map[string]int{}
	for i, w := range words {
		if w == "" {
			p = append(p, "empty word")
		}
		if j, ok := seen[w]; ok {
			p = append(p, "duplicate word "+w+" at "+itoa(j)+" and "+itoa(i))
		}
		seen[w] = i
		if strings.ContainsAny(w, " \t\n\r\v\f\x00") {
			p = append(p, "whitespace in word "+itoa(i))
		}
		if strings.ToLower(w) != w {
			p = append(p, "upper case in word "+w)
		}
	}
	return
}

func itoa(i int) string {
	if i == 0 {
		return "0"
	}
	s := ""
	for i > 0 {
		s = string(rune('0'+i%10)) + s
		i /= 10
	}
	return s
}

// Encode: len(b) must be a multiple of 3.
func (c *Codec) Encode(b []byte) string {
	bits := make([]int, 0, len(b)*8)
	for _, x := range b {
		for k := 7; k >= 0; k-- {
			bits = append(bits, int(x>>uint(k))&1)
		}
	}
	var out []string
	for i := 0; i+12 <= len(bits); i += 12 {
		v := 0
		for _, bit := range bits[i : i+12] {
			v = v<<1 | bit
		}
		out = append(out, c.words[v])
	}
	return strings.Join(out, " ")
}

// Decode is strict: tokens separated by exactly one space, every token in the
// table, even word count, and exactly `size` bytes result.
func (c *Codec) Decode(p string, size int) ([]byte, error) {
	toks := strings.Split(p, " ")
	if len(toks)%2 != 0 {
		return nil, errors.New("odd word count")
	}
	if len(toks)*12 != size*8 {
		return nil, errors.New("wrong word count for size")
	}
	var bits []int
	for _, t := range toks {
		v, ok := c.index[t]
		if !ok {
			return nil, errors.New("unknown word")
		}
		for k := 11; k >= 0; k-- {
			bits = append(bits, (v>>uint(k))&1)
		}
	}
	out := make([]byte, size)
	for i := range out {
		for k := 0; k < 8; k++ {
			out[i] = out[i]<<1 | byte(bits[8*i+k])
		}
	}
	return out, nil
}

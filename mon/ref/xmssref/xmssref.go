// Package xmssref is a plain reference implementation of the QRL XMSS scheme
// (WOTS+ w=16, n=32, L-tree leaves, one Merkle tree) that keeps the whole tree
// in memory and has no traversal state. It is the oracle for the XMSS monitors;
// it deliberately shares no code with the library (own hashing, own address
// serialisation).
package xmssref

import (
	"crypto/sha256"
	"encoding/binary"

	"golang.org/x/crypto/sha3"
)

const (
	N    = 32
	W    = 16
	Len1 = 64
	Len2 = 3
	Len  = 67

	PKSize  = 67
	SigBase = 4 + N + Len*N // 2180
)

type Hash int // 0 SHA2_256, 1 SHAKE_128, 2 SHAKE_256

func (hf Hash) Name() string {
	switch hf {
	case 0:
		return "SHA2_256"
	case 1:
		return "SHAKE_128"
	case 2:
		return "SHAKE_256"
	}
	return "unsupported"
}

func (hf Hash) sum(in []byte) []byte {
	out := make([]byte, N)
	switch hf {
	case 0:
		s := sha256.Sum256(in)
		copy(out, s[:])
	case 1:
		sha3.ShakeSum128(out, in)
	case 2:
		sha3.ShakeSum256(out, in)
	default:
		panic("xmssref: unsupported hash")
	}
	return out
}

func toByte(v uint32, n int) []byte {
	b := make([]byte, n)
	binary.BigEndian.PutUint32(b[n-4:], v)
	return b
}

// core(type, key, in) = H(toByte(type,32) || key || in)
func (hf Hash) core(typ uint32, key, in []byte) []byte {
	buf := make([]byte, 0, N+len(key)+len(in))
	buf = append(buf, toByte(typ, N)...)
	buf = append(buf, key...)
	buf = append(buf, in...)
	return hf.sum(buf)
}

// Addr: eight 32-bit words, serialised big-endian.
// word 3 = type (0 OTS, 1 L-tree, 2 hash tree); word 4 = OTS / L-tree index;
// word 5 = chain / tree height; word 6 = hash / tree index; word 7 = key-and-mask.
type Addr [8]uint32

func (a Addr) bytes() []byte {
	b := make([]byte, 32)
	for i, w := range a {
		binary.BigEndian.PutUint32(b[4*i:], w)
	}
	return b
}

func (hf Hash) prf(key, in []byte) []byte { return hf.core(3, key, in) }

// f: one WOTS chain step.
func (hf Hash) f(in, pub []byte, a Addr) []byte {
	a[7] = 0
	key := hf.prf(pub, a.bytes())
	a[7] = 1
	mask := hf.prf(pub, a.bytes())
	x := make([]byte, N)
	for i := range x {
		x[i] = in[i] ^ mask[i]
	}
	return hf.core(0, key, x)
}

// H: tree node hash.
func (hf Hash) H(l, r, pub []byte, a Addr) []byte {
	a[7] = 0
	key := hf.prf(pub, a.bytes())
	a[7] = 1
	m0 := hf.prf(pub, a.bytes())
	a[7] = 2
	m1 := hf.prf(pub, a.bytes())
	x := make([]byte, 2*N)
	for i := 0; i < N; i++ {
		x[i] = l[i] ^ m0[i]
		x[N+i] = r[i] ^ m1[i]
	}
	return hf.core(1, key, x)
}

func (hf Hash) chain(x, pub []byte, ots, ch uint32, from, to int) []byte {
	for s := from; s < to; s++ {
		x = hf.f(x, pub, Addr{0, 0, 0, 0, ots, ch, uint32(s), 0})
	}
	return x
}

// digits: 64 base-16 digits of the message hash followed by 3 checksum digits.
func digits(msgHash []byte) []int {
	d := make([]int, 0, Len)
	for _, b := range msgHash {
		d = append(d, int(b>>4), int(b&15))
	}
	cs := 0
	for _, v := range d {
		cs += W - 1 - v
	}
	// 12 checksum bits, left-aligned in two bytes
	cs <<= 4
	d = append(d, (cs>>12)&15, (cs>>8)&15, (cs>>4)&15)
	return d
}

func (hf Hash) wotsSK(skSeed []byte, ots uint32) [][]byte {
	seed := hf.prf(skSeed, Addr{0, 0, 0, 0, ots, 0, 0, 0}.bytes())
	sk := make([][]byte, Len)
	for i := range sk {
		sk[i] = hf.prf(seed, toByte(uint32(i), 32))
	}
	return sk
}

func (hf Hash) ltree(pk [][]byte, pub []byte, idx uint32) []byte {
	nodes := append([][]byte{}, pk...)
	height := uint32(0)
	for len(nodes) > 1 {
		var next [][]byte
		for i := 0; i+1 < len(nodes); i += 2 {
			next = append(next, hf.H(nodes[i], nodes[i+1], pub, Addr{0, 0, 0, 1, idx, height, uint32(i / 2), 0}))
		}
		if len(nodes)%2 == 1 {
			next = append(next, nodes[len(nodes)-1])
		}
		nodes = next
		height++
	}
	return nodes[0]
}

// Leaf computes the L-tree compressed WOTS public key of index idx.
func (hf Hash) Leaf(skSeed, pub []byte, idx uint32) []byte {
	sk := hf.wotsSK(skSeed, idx)
	pk := make([][]byte, Len)
	for i := range pk {
		pk[i] = hf.chain(sk[i], pub, idx, uint32(i), 0, W-1)
	}
	return hf.ltree(pk, pub, idx)
}

// Key holds a full Merkle tree. Levels[l] is the concatenation of the 2^(h-l)
// nodes of level l (level 0 = leaves).
type Key struct {
	HF                       Hash
	H                        int
	SkSeed, SkPRF, Pub, Root []byte
	Levels                   [][]byte
}

// KeyGen builds the whole tree. If leaf != nil it supplies the leaves (used
// with the library's leaf seam); otherwise the real WOTS leaves are computed.
func KeyGen(seed []byte, h int, hf Hash, leaf func(idx uint32) []byte) *Key {
	r := make([]byte, 96)
	sha3.ShakeSum256(r, seed)
	k := &Key{HF: hf, H: h, SkSeed: r[:32], SkPRF: r[32:64], Pub: r[64:96]}
	n := 1 << uint(h)
	lv := make([]byte, n*N)
	for i := 0; i < n; i++ {
		if leaf != nil {
			copy(lv[i*N:], leaf(uint32(i)))
		} else {
			copy(lv[i*N:], hf.Leaf(k.SkSeed, k.Pub, uint32(i)))
		}
	}
	k.Levels = append(k.Levels, lv)
	for l := 0; l < h; l++ {
		prev := k.Levels[l]
		cnt := len(prev) / N / 2
		cur := make([]byte, cnt*N)
		for j := 0; j < cnt; j++ {
			copy(cur[j*N:], hf.H(prev[2*j*N:(2*j+1)*N], prev[(2*j+1)*N:(2*j+2)*N], k.Pub, Addr{0, 0, 0, 2, 0, uint32(l), uint32(j), 0}))
		}
		k.Levels = append(k.Levels, cur)
	}
	k.Root = k.Levels[h][:N]
	return k
}

// Auth is the authentication path of leaf idx: the sibling at every level.
func (k *Key) Auth(idx uint32) []byte {
	a := make([]byte, 0, k.H*N)
	for l := 0; l < k.H; l++ {
		s := int((idx >> uint(l)) ^ 1)
		a = append(a, k.Levels[l][s*N:(s+1)*N]...)
	}
	return a
}

// PK returns descriptor || root || pub seed for the given 3 descriptor bytes.
func (k *Key) PK(desc [3]byte) []byte {
	pk := append([]byte{}, desc[:]...)
	pk = append(pk, k.Root...)
	return append(pk, k.Pub...)
}

func (hf Hash) hmsg(R, root []byte, idx uint32, msg []byte) []byte {
	key := append(append(append([]byte{}, R...), root...), toByte(idx, N)...)
	return hf.core(2, key, msg)
}

// Sign: idx(4) || R(32) || 67 WOTS blocks || h authentication nodes.
func (k *Key) Sign(idx uint32, msg []byte) []byte {
	hf := k.HF
	R := hf.prf(k.SkPRF, toByte(idx, 32))
	mh := hf.hmsg(R, k.Root, idx, msg)
	sig := append(toByte(idx, 4), R...)
	sk := hf.wotsSK(k.SkSeed, idx)
	for i, d := range digits(mh) {
		sig = append(sig, hf.chain(sk[i], k.Pub, idx, uint32(i), 0, d)...)
	}
	return append(sig, k.Auth(idx)...)
}

// Verify is the specification-level verifier for pk = desc(3) || root || pubseed.
// It accepts only signature type XMSS, hash ids 0..2, even heights 4..30 with a
// signature of exactly the matching size, and a recomputed root equal to the
// public key's on all 32 bytes.
func Verify(msg, sig []byte, pk []byte) bool {
	if len(pk) != PKSize {
		return false
	}
	if pk[0]>>4 != 0 {
		return false
	}
	hfid := int(pk[0] & 15)
	if hfid > 2 {
		return false
	}
	h := int(pk[1]&15) * 2
	if h < 4 || h > 30 {
		return false
	}
	if len(sig) != SigBase+h*N {
		return false
	}
	hf := Hash(hfid)
	root := pk[3:35]
	pub := pk[35:67]
	idx := binary.BigEndian.Uint32(sig[:4])
	R := sig[4:36]
	mh := hf.hmsg(R, root, idx, msg)
	wpk := make([][]byte, Len)
	for i, d := range digits(mh) {
		wpk[i] = hf.chain(sig[36+i*N:36+(i+1)*N], pub, idx, uint32(i), d, W-1)
	}
	node := hf.ltree(wpk, pub, idx)
	auth := sig[36+Len*N:]
	li := idx
	for l := 0; l < h; l++ {
		sib := auth[l*N : (l+1)*N]
		a := Addr{0, 0, 0, 2, 0, uint32(l), li >> 1, 0}
		if li&1 == 0 {
			node = hf.H(node, sib, pub, a)
		} else {
			node = hf.H(sib, node, pub, a)
		}
		li >>= 1
	}
	for i := range root {
		if root[i] != node[i] {
			return false
		}
	}
	return true
}

// Secrets: the three 32-byte values a seed expands to.
type Secrets struct{ SkSeed, SkPRF, Pub []byte }

func Expand(seed []byte) Secrets {
	r := make([]byte, 96)
	sha3.ShakeSum256(r, seed)
	return Secrets{r[:32], r[32:64], r[64:96]}
}

// SignPrefix computes index || R || WOTS signature for a given root, without any tree
// (what a signature's first 2180 bytes must be for index idx under that root).
func (s Secrets) SignPrefix(hf Hash, idx uint32, msg, root []byte) []byte {
	R := hf.prf(s.SkPRF, toByte(idx, 32))
	mh := hf.hmsg(R, root, idx, msg)
	sig := append(toByte(idx, 4), R...)
	sk := hf.wotsSK(s.SkSeed, idx)
	for i, d := range digits(mh) {
		sig = append(sig, hf.chain(sk[i], s.Pub, idx, uint32(i), 0, d)...)
	}
	return sig
}

// SparseTriple builds a self-consistent (signature, public key) for ANY height and index
// without building the tree: the leaf of idx is real, the authentication path is the
// given bytes (h*32), and the root is whatever they hash up to. The message hash depends
// on the root, so the root is found first from the leaf and the path (neither depends on
// the message), then the WOTS part is signed under that root.
func (s Secrets) SparseTriple(hf Hash, h int, idx uint32, msg, auth []byte, desc [3]byte) (sig, pk []byte) {
	node := hf.Leaf(s.SkSeed, s.Pub, idx)
	li := idx
	for l := 0; l < h; l++ {
		sib := auth[l*N : (l+1)*N]
		a := Addr{0, 0, 0, 2, 0, uint32(l), li >> 1, 0}
		if li&1 == 0 {
			node = hf.H(node, sib, s.Pub, a)
		} else {
			node = hf.H(sib, node, s.Pub, a)
		}
		li >>= 1
	}
	root := node
	sig = append(s.SignPrefix(hf, idx, msg, root), auth[:h*N]...)
	pk = append(append(append([]byte{}, desc[:]...), root...), s.Pub...)
	return
}

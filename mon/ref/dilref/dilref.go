// Package dilref is a specification-level implementation of CRYSTALS-Dilithium
// round 3.1, security level 5. Coefficients are canonical residues in int64,
// ring multiplication is the schoolbook negacyclic product, encodings go
// through one generic bit-stream codec, samplers read one byte at a time.
// It is the oracle for the Dilithium monitors and shares no code with the
// library.
package dilref

import (
	"golang.org/x/crypto/sha3"
)

const (
	Q      = 8380417
	N      = 256
	D      = 13
	K      = 8
	L      = 7
	Eta    = 2
	Tau    = 60
	Beta   = 120
	Gamma1 = 1 << 19
	Gamma2 = (Q - 1) / 32
	Omega  = 75

	PKBytes  = 32 + K*320
	SKBytes  = 3*32 + L*96 + K*96 + K*416
	SigBytes = 32 + L*640 + Omega + K
)

type Poly [N]int64 // canonical residues in [0,q) unless stated otherwise

func Mod(a int64) int64 {
	a %= Q
	if a < 0 {
		a += Q
	}
	return a
}

// CMod is the centred representative in (-(q-1)/2 .. (q-1)/2].
func CMod(a int64) int64 {
	a = Mod(a)
	if a > (Q-1)/2 {
		a -= Q
	}
	return a
}

// Mul is the schoolbook product modulo (X^256+1, q).
func Mul(a, b *Poly) (c Poly) {
	var acc [N]int64
	var cb [N]int64
	for j := 0; j < N; j++ {
		cb[j] = CMod(b[j])
	}
	for i := 0; i < N; i++ {
		ai := CMod(a[i])
		if ai == 0 {
			continue
		}
		for j := 0; j < N; j++ {
			p := ai * cb[j] // |p| < 2^45, 256 terms fit easily
			if i+j < N {
				acc[i+j] += p
			} else {
				acc[i+j-N] -= p
			}
		}
	}
	for i := range acc {
		c[i] = Mod(acc[i])
	}
	return
}
func Add(a, b *Poly) (c Poly) {
	for i := range c {
		c[i] = Mod(a[i] + b[i])
	}
	return
}
func Sub(a, b *Poly) (c Poly) {
	for i := range c {
		c[i] = Mod(a[i] - b[i])
	}
	return
}

func Shake256(out int, parts ...[]byte) []byte {
	h := sha3.NewShake256()
	for _, p := range parts {
		h.Write(p)
	}
	o := make([]byte, out)
	h.Read(o)
	return o
}

// ---------------------------------------------------------------- samplers

type stream struct {
	r    sha3.ShakeHash
	Used int
}

func (s *stream) next() byte {
	var b [1]byte
	s.r.Read(b[:])
	s.Used++
	return b[0]
}

func powmod(b, e int64) int64 {
	r := int64(1)
	b = Mod(b)
	for e > 0 {
		if e&1 == 1 {
			r = r * b % Q
		}
		b = b * b % Q
		e >>= 1
	}
	return r
}
func brv8(x int) int {
	r := 0
	for i := 0; i < 8; i++ {
		r = r<<1 | (x>>uint(i))&1
	}
	return r
}

// NTTPoints: the specification's NTT output ordering is
// ahat[2i] = a(r_i), ahat[2i+1] = a(-r_i) with r_i = 1753^brv8(128+i).
func NTTPoints() (x [N]int64) {
	for i := 0; i < 128; i++ {
		r := powmod(1753, int64(brv8(128+i)))
		x[2*i] = r
		x[2*i+1] = Q - r
	}
	return
}

// FromNTT inverts the evaluation map naively (O(n^2)).
func FromNTT(ah *Poly) (a Poly) {
	x := NTTPoints()
	ninv := powmod(N, Q-2)
	var xi, pw [N]int64
	for k := 0; k < N; k++ {
		xi[k] = powmod(x[k], Q-2)
		pw[k] = 1
	}
	for j := 0; j < N; j++ {
		var acc int64
		for k := 0; k < N; k++ {
			acc = (acc + ah[k]*pw[k]) % Q
			pw[k] = pw[k] * xi[k] % Q
		}
		a[j] = acc * ninv % Q
	}
	return
}

// ToNTT evaluates a at the NTT points (naive, O(n^2)).
func ToNTT(a *Poly) (ah Poly) {
	x := NTTPoints()
	for k := 0; k < N; k++ {
		var acc, pw int64 = 0, 1
		for j := 0; j < N; j++ {
			acc = (acc + a[j]*pw) % Q
			pw = pw * x[k] % Q
		}
		ah[k] = acc
	}
	return
}

// UniformStats describes what the matrix sampler met.
type UniformStats struct {
	Rejected   int // candidates >= q
	CandQm1    int // candidates equal to q-1 (accepted, boundary)
	CandQ      int // candidates equal to q (rejected, boundary)
	BytesUsed  int
	MaxPerPoly int // largest number of rejected candidates in one polynomial
}

// SampleUniform: one matrix entry in NTT representation (ExpandA, nonce = 256*i + j).
func SampleUniform(rho []byte, nonce uint16, st *UniformStats) (p Poly) {
	h := sha3.NewShake128()
	h.Write(rho)
	h.Write([]byte{byte(nonce), byte(nonce >> 8)})
	s := stream{r: h}
	n, rej := 0, 0
	for n < N {
		t := int64(s.next()) | int64(s.next())<<8 | int64(s.next())<<16
		t &= 0x7FFFFF
		if st != nil {
			if t == Q-1 {
				st.CandQm1++
			}
			if t == Q {
				st.CandQ++
			}
		}
		if t < Q {
			p[n] = t
			n++
		} else {
			rej++
		}
	}
	if st != nil {
		st.Rejected += rej
		st.BytesUsed += s.Used
		if rej > st.MaxPerPoly {
			st.MaxPerPoly = rej
		}
	}
	return
}

func ExpandAhat(rho []byte, st *UniformStats) (A [K][L]Poly) {
	for i := 0; i < K; i++ {
		for j := 0; j < L; j++ {
			A[i][j] = SampleUniform(rho, uint16(i)<<8+uint16(j), st)
		}
	}
	return
}

var aCacheKey string
var aCache *[K][L]Poly

// ExpandA returns the matrix in coefficient form (the spec samples it in NTT
// representation). The last result is cached by rho.
func ExpandA(rho []byte) *[K][L]Poly {
	if aCache != nil && aCacheKey == string(rho) {
		return aCache
	}
	Ah := ExpandAhat(rho, nil)
	var A [K][L]Poly
	for i := 0; i < K; i++ {
		for j := 0; j < L; j++ {
			A[i][j] = FromNTT(&Ah[i][j])
		}
	}
	aCacheKey, aCache = string(rho), &A
	return aCache
}

// SampleEta: coefficients in [-2,2] by nibble rejection (nibbles 15 rejected).
// Returns the polynomial (canonical residues) and the number of bytes read.
func SampleEta(seed []byte, nonce uint16) (p Poly, used int) {
	h := sha3.NewShake256()
	h.Write(seed)
	h.Write([]byte{byte(nonce), byte(nonce >> 8)})
	s := stream{r: h}
	n := 0
	for n < N {
		b := s.next()
		for _, t := range []int64{int64(b & 15), int64(b >> 4)} {
			if t < 15 && n < N {
				p[n] = Mod(Eta - t%5)
				n++
			}
		}
	}
	return p, s.Used
}

// SampleMask: ExpandMask, 20-bit values v, coefficient = gamma1 - v.
func SampleMask(seed []byte, nonce uint16) (p Poly) {
	buf := Shake256(640, seed, []byte{byte(nonce), byte(nonce >> 8)})
	v := UnpackBits(buf, 20, N)
	for i := range p {
		p[i] = Mod(Gamma1 - v[i])
	}
	return
}

func SampleInBall(ctilde []byte) (c Poly) {
	h := sha3.NewShake256()
	h.Write(ctilde)
	s := stream{r: h}
	var signs uint64
	for i := 0; i < 8; i++ {
		signs |= uint64(s.next()) << (8 * uint(i))
	}
	for i := N - Tau; i < N; i++ {
		var b int
		for {
			b = int(s.next())
			if b <= i {
				break
			}
		}
		c[i] = c[b]
		if signs&1 == 1 {
			c[b] = Q - 1
		} else {
			c[b] = 1
		}
		signs >>= 1
	}
	return
}

// ---------------------------------------------------------------- bit-stream codec

// PackBits writes each value's low `bits` bits, little-endian, back to back.
func PackBits(vals []int64, bits int) []byte {
	out := make([]byte, (len(vals)*bits+7)/8)
	pos := 0
	for _, v := range vals {
		for b := 0; b < bits; b++ {
			if (v>>uint(b))&1 == 1 {
				out[pos/8] |= 1 << uint(pos%8)
			}
			pos++
		}
	}
	return out
}
func UnpackBits(buf []byte, bits, n int) []int64 {
	out := make([]int64, n)
	pos := 0
	for i := 0; i < n; i++ {
		var v int64
		for b := 0; b < bits; b++ {
			if buf[pos/8]>>(uint(pos%8))&1 == 1 {
				v |= 1 << uint(b)
			}
			pos++
		}
		out[i] = v
	}
	return out
}

// Component encodings (signed, centred coefficient values in and out).
func PackEta(c *[N]int64) []byte { return packMap(c, 3, func(v int64) int64 { return Eta - v }) }
func PackT1(c *[N]int64) []byte  { return packMap(c, 10, func(v int64) int64 { return v }) }
func PackT0(c *[N]int64) []byte {
	return packMap(c, 13, func(v int64) int64 { return (1 << (D - 1)) - v })
}
func PackZ(c *[N]int64) []byte  { return packMap(c, 20, func(v int64) int64 { return Gamma1 - v }) }
func PackW1(c *[N]int64) []byte { return packMap(c, 4, func(v int64) int64 { return v }) }
func packMap(c *[N]int64, bits int, f func(int64) int64) []byte {
	var v [N]int64
	for i := range v {
		v[i] = f(c[i])
	}
	return PackBits(v[:], bits)
}
func UnpackEta(b []byte) (c [N]int64) { return unpackMap(b, 3, func(v int64) int64 { return Eta - v }) }
func UnpackT1(b []byte) (c [N]int64)  { return unpackMap(b, 10, func(v int64) int64 { return v }) }
func UnpackT0(b []byte) (c [N]int64) {
	return unpackMap(b, 13, func(v int64) int64 { return (1 << (D - 1)) - v })
}
func UnpackZ(b []byte) (c [N]int64) {
	return unpackMap(b, 20, func(v int64) int64 { return Gamma1 - v })
}
func unpackMap(b []byte, bits int, f func(int64) int64) (c [N]int64) {
	v := UnpackBits(b, bits, N)
	for i := range c {
		c[i] = f(v[i])
	}
	return
}

// PackHint encodes a hint vector (entries 0/1, total weight <= omega).
func PackHint(h *[K][N]int64) []byte {
	hb := make([]byte, Omega+K)
	idx := 0
	for i := 0; i < K; i++ {
		for n := 0; n < N; n++ {
			if h[i][n] != 0 {
				hb[idx] = byte(n)
				idx++
			}
		}
		hb[Omega+i] = byte(idx)
	}
	return hb
}

// Loose names verifier-side conditions to leave out. The zero value is the
// specification. Non-zero values exist only so that a monitor can confirm that a
// crafted signature is rejected by exactly one condition ("isolating").
type Loose struct{ ZNorm, Unordered, Duplicate, Padding bool }

// UnpackHint decodes strictly; reason names the rule that refused.
func UnpackHint(hb []byte) (h [K][N]int64, ok bool, reason string) {
	return UnpackHintLoose(hb, Loose{})
}

func UnpackHintLoose(hb []byte, lo Loose) (h [K][N]int64, ok bool, reason string) {
	k := 0
	for i := 0; i < K; i++ {
		cnt := int(hb[Omega+i])
		if cnt < k {
			return h, false, "count-decreases"
		}
		if cnt > Omega {
			return h, false, "count-over-omega"
		}
		for j := k; j < cnt; j++ {
			if j > k && hb[j] < hb[j-1] && !lo.Unordered {
				return h, false, "unordered"
			}
			if j > k && hb[j] == hb[j-1] && !lo.Duplicate {
				return h, false, "duplicate"
			}
			h[i][hb[j]] = 1
		}
		k = cnt
	}
	for j := k; j < Omega; j++ {
		if hb[j] != 0 && !lo.Padding {
			return h, false, "padding"
		}
	}
	return h, true, ""
}

// ---------------------------------------------------------------- rounding

func Power2Round(r int64) (r1, r0 int64) { // r in [0,q)
	r0 = r % (1 << D)
	if r0 > 1<<(D-1) {
		r0 -= 1 << D
	}
	return (r - r0) >> D, r0
}
func Decompose(r int64) (r1, r0 int64) { // r in [0,q)
	r0 = r % (2 * Gamma2)
	if r0 > Gamma2 {
		r0 -= 2 * Gamma2
	}
	if r-r0 == Q-1 {
		return 0, r0 - 1
	}
	return (r - r0) / (2 * Gamma2), r0
}
func HighBits(r int64) int64 { a, _ := Decompose(r); return a }
func UseHint(h int64, r int64) int64 {
	r1, r0 := Decompose(r)
	if h == 0 {
		return r1
	}
	if r0 > 0 {
		return (r1 + 1) % 16
	}
	return (r1 + 15) % 16
}
func InfNorm(p *Poly) int64 {
	var m int64
	for _, v := range p {
		c := CMod(v)
		if c < 0 {
			c = -c
		}
		if c > m {
			m = c
		}
	}
	return m
}

// ---------------------------------------------------------------- key generation

type Key struct {
	Rho, Key, Tr []byte
	S1           [L]Poly
	S2, T0, T1   [K]Poly
	PK, SK       []byte
	EtaBytesMax  int // most bytes any eta polynomial needed (136 = one block)
	WrapCount    int // coefficients where A*s1 + s2 leaves [0,q) before the reduction (boundary of t's representative)
	Uniform      UniformStats
}

func MatVec(A *[K][L]Poly, v *[L]Poly) (w [K]Poly) {
	for i := 0; i < K; i++ {
		for j := 0; j < L; j++ {
			m := Mul(&A[i][j], &v[j])
			w[i] = Add(&w[i], &m)
		}
	}
	return
}

func centred(p *Poly) (c [N]int64) {
	for i := range c {
		c[i] = CMod(p[i])
	}
	return
}
func plain(p *Poly) (c [N]int64) {
	for i := range c {
		c[i] = p[i]
	}
	return
}

// KeyGen from the 32-byte value zeta.
func KeyGen(zeta []byte) *Key {
	s := Shake256(128, zeta)
	k := &Key{Rho: s[:32], Key: s[96:128]}
	rhoP := s[32:96]
	A := ExpandA(k.Rho)
	ExpandAhat(k.Rho, &k.Uniform)
	for i := 0; i < L; i++ {
		var u int
		k.S1[i], u = SampleEta(rhoP, uint16(i))
		if u > k.EtaBytesMax {
			k.EtaBytesMax = u
		}
	}
	for i := 0; i < K; i++ {
		var u int
		k.S2[i], u = SampleEta(rhoP, uint16(L+i))
		if u > k.EtaBytesMax {
			k.EtaBytesMax = u
		}
	}
	t := MatVec(A, &k.S1)
	pk := append([]byte{}, k.Rho...)
	for i := 0; i < K; i++ {
		for n := 0; n < N; n++ {
			if raw := t[i][n] + CMod(k.S2[i][n]); raw < 0 || raw >= Q {
				k.WrapCount++
			}
		}
		t[i] = Add(&t[i], &k.S2[i])
		for n := 0; n < N; n++ {
			r1, r0 := Power2Round(t[i][n])
			k.T1[i][n] = r1
			k.T0[i][n] = Mod(r0)
		}
		v := plain(&k.T1[i])
		pk = append(pk, PackT1(&v)...)
	}
	k.PK = pk
	k.Tr = Shake256(32, pk)
	sk := append([]byte{}, k.Rho...)
	sk = append(sk, k.Key...)
	sk = append(sk, k.Tr...)
	for i := 0; i < L; i++ {
		v := centred(&k.S1[i])
		sk = append(sk, PackEta(&v)...)
	}
	for i := 0; i < K; i++ {
		v := centred(&k.S2[i])
		sk = append(sk, PackEta(&v)...)
	}
	for i := 0; i < K; i++ {
		v := centred(&k.T0[i])
		sk = append(sk, PackT0(&v)...)
	}
	k.SK = sk
	return k
}

// ---------------------------------------------------------------- signing with margins and knobs

type Attempt struct {
	MaxZ, MaxR0, MaxCt0  int64
	ZAtMaxNeg, ZAtMaxPos bool // some coefficient equals -MaxZ / +MaxZ
	Weight               int
	// coefficients whose perturbed low part w0 - c*s2 + c*t0 equals -gamma2 exactly (the
	// MakeHint corner), split by whether the high part w1 is zero
	CornerW1Zero, CornerW1NonZero int
	Kappa                         int
	Exit                          string // "z", "r0", "ct0", "hint", "ok", "knob"
}

// Knobs make the signer deliberately skip one signing-side test (used to build
// signatures that satisfy everything except one verifier-side condition).
type Knobs struct {
	SkipZ      bool  // demand gamma1-beta <= |z|max < gamma1 instead of |z|max < gamma1-beta
	ExactZ     int64 // with SkipZ: demand |z|max == ExactZ (0 = any value in the knob range)
	StartKappa int   // first attempt number to try (replaying a known witness)
	MaxTries   int   // 0 = unlimited
}

func (k *Key) Sign(msg []byte, kn Knobs) (sig []byte, att []Attempt) {
	A := ExpandA(k.Rho)
	mu := Shake256(64, k.Tr, msg)
	rhoPP := Shake256(64, k.Key, mu)
	for kappa := kn.StartKappa; ; kappa++ {
		if kn.MaxTries > 0 && kappa-kn.StartKappa >= kn.MaxTries {
			return nil, att
		}
		var y [L]Poly
		for i := 0; i < L; i++ {
			y[i] = SampleMask(rhoPP, uint16(L*kappa+i))
		}
		w := MatVec(A, &y)
		var w1 [K]Poly
		var w1b []byte
		for i := 0; i < K; i++ {
			for n := 0; n < N; n++ {
				w1[i][n] = HighBits(w[i][n])
			}
			v := plain(&w1[i])
			w1b = append(w1b, PackW1(&v)...)
		}
		ct := Shake256(32, mu, w1b)
		c := SampleInBall(ct)
		a := Attempt{Kappa: kappa}
		var z [L]Poly
		for i := 0; i < L; i++ {
			m := Mul(&c, &k.S1[i])
			z[i] = Add(&y[i], &m)
			if v := InfNorm(&z[i]); v > a.MaxZ {
				a.MaxZ = v
			}
		}
		for i := 0; i < L; i++ {
			for n := 0; n < N; n++ {
				if cz := CMod(z[i][n]); cz == a.MaxZ {
					a.ZAtMaxPos = true
				} else if cz == -a.MaxZ {
					a.ZAtMaxNeg = true
				}
			}
		}
		if !kn.SkipZ && a.MaxZ >= Gamma1-Beta {
			a.Exit = "z"
			att = append(att, a)
			continue
		}
		if kn.SkipZ && (a.MaxZ < Gamma1-Beta || a.MaxZ >= Gamma1 || (kn.ExactZ != 0 && a.MaxZ != kn.ExactZ)) {
			a.Exit = "knob"
			att = append(att, a)
			continue
		}
		// r0 = LowBits(w) - c*s2, tested against gamma2 - beta
		var wcs2 [K]Poly
		for i := 0; i < K; i++ {
			m := Mul(&c, &k.S2[i])
			wcs2[i] = Sub(&w[i], &m)
			for n := 0; n < N; n++ {
				_, w0 := Decompose(w[i][n])
				v := CMod(w0 - CMod(m[n]))
				if v < 0 {
					v = -v
				}
				if v > a.MaxR0 {
					a.MaxR0 = v
				}
			}
		}
		if a.MaxR0 >= Gamma2-Beta {
			a.Exit = "r0"
			att = append(att, a)
			continue
		}
		var ct0 [K]Poly
		for i := 0; i < K; i++ {
			ct0[i] = Mul(&c, &k.T0[i])
			if v := InfNorm(&ct0[i]); v > a.MaxCt0 {
				a.MaxCt0 = v
			}
		}
		if a.MaxCt0 >= Gamma2 {
			a.Exit = "ct0"
			att = append(att, a)
			continue
		}
		var h [K][N]int64
		for i := 0; i < K; i++ {
			r := Add(&wcs2[i], &ct0[i])
			cs2p := Sub(&w[i], &wcs2[i])
			for n := 0; n < N; n++ {
				if HighBits(r[n]) != w1[i][n] {
					h[i][n] = 1
					a.Weight++
				}
				// the corner of the comparison-based MakeHint: perturbed low part exactly -gamma2
				_, w0 := Decompose(w[i][n])
				cs2 := CMod(cs2p[n])
				if w0-cs2+CMod(ct0[i][n]) == -Gamma2 {
					if w1[i][n] == 0 {
						a.CornerW1Zero++
					} else {
						a.CornerW1NonZero++
					}
				}
			}
		}
		if a.Weight > Omega {
			a.Exit = "hint"
			att = append(att, a)
			continue
		}
		a.Exit = "ok"
		att = append(att, a)
		sig = append([]byte{}, ct...)
		for i := 0; i < L; i++ {
			v := centred(&z[i])
			sig = append(sig, PackZ(&v)...)
		}
		return append(sig, PackHint(&h)...), att
	}
}

// Verify per the specification; why names the first failing condition.
func Verify(pk, msg, sig []byte) (ok bool, why string) { return VerifyLoose(pk, msg, sig, Loose{}) }

func VerifyLoose(pk, msg, sig []byte, lo Loose) (ok bool, why string) {
	if len(pk) != PKBytes || len(sig) != SigBytes {
		return false, "size"
	}
	rho := pk[:32]
	var t1 [K]Poly
	for i := 0; i < K; i++ {
		v := UnpackT1(pk[32+320*i:])
		for n := range v {
			t1[i][n] = v[n]
		}
	}
	ct := sig[:32]
	var z [L]Poly
	for i := 0; i < L; i++ {
		v := UnpackZ(sig[32+640*i:])
		for n := range v {
			z[i][n] = Mod(v[n])
		}
	}
	h, hok, reason := UnpackHintLoose(sig[32+640*L:], lo)
	if !hok {
		return false, "hint-" + reason
	}
	for i := 0; i < L; i++ {
		if InfNorm(&z[i]) >= Gamma1-Beta && !lo.ZNorm {
			return false, "z-norm"
		}
	}
	mu := Shake256(64, Shake256(32, pk), msg)
	c := SampleInBall(ct)
	A := ExpandA(rho)
	az := MatVec(A, &z)
	var w1b []byte
	for i := 0; i < K; i++ {
		var t Poly
		for n := range t {
			t[n] = Mod(t1[i][n] << D)
		}
		m := Mul(&c, &t)
		r := Sub(&az[i], &m)
		var v [N]int64
		for n := range v {
			v[n] = UseHint(h[i][n], r[n])
		}
		w1b = append(w1b, PackW1(&v)...)
	}
	ct2 := Shake256(32, mu, w1b)
	for i := range ct2 {
		if ct2[i] != ct[i] {
			return false, "challenge"
		}
	}
	return true, ""
}

// DegeneratePK: rho followed by an all-zero t1. Under such a public key the verification
// equation does not involve the challenge polynomial (c*t1*2^d = 0), so for ANY response z
// and ANY hint vector h the signature (c = H(mu, UseHint(h, A*z)), z, h) satisfies the
// specification's verification equations -- valid if and only if it also meets the
// verifier-side conditions (norm of z, hint encoding rules). That isolates every one of
// those conditions without a secret key.
func DegeneratePK(rho []byte) []byte {
	return append(append([]byte{}, rho...), make([]byte, K*320)...)
}

// ForgeDegenerate builds the signature for (z, h) under DegeneratePK(rho). z holds centred
// coefficients; hb is the 83-byte hint section exactly as it will appear in the signature
// (so non-canonical sections can be presented); h is the hint vector the section is meant
// to decode to.
func ForgeDegenerate(rho, msg []byte, z *[L][N]int64, h *[K][N]int64, hb []byte) (pk, sig []byte) {
	pk = DegeneratePK(rho)
	A := ExpandA(rho)
	var zp [L]Poly
	for i := 0; i < L; i++ {
		for n := 0; n < N; n++ {
			zp[i][n] = Mod(z[i][n])
		}
	}
	w := MatVec(A, &zp)
	var w1b []byte
	for i := 0; i < K; i++ {
		var v [N]int64
		for n := range v {
			v[n] = UseHint(h[i][n], w[i][n])
		}
		w1b = append(w1b, PackW1(&v)...)
	}
	mu := Shake256(64, Shake256(32, pk), msg)
	c := Shake256(32, mu, w1b)
	sig = append([]byte{}, c...)
	for i := 0; i < L; i++ {
		sig = append(sig, PackZ(&z[i])...)
	}
	return pk, append(sig, hb...)
}

// AZ returns A*z for the matrix of rho (coefficient form), for constructions that need to look at w'.
func AZ(rho []byte, z *[L][N]int64) [K]Poly {
	var zp [L]Poly
	for i := 0; i < L; i++ {
		for n := 0; n < N; n++ {
			zp[i][n] = Mod(z[i][n])
		}
	}
	return MatVec(ExpandA(rho), &zp)
}

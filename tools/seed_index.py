#!/usr/bin/env python3
"""Developer tool: write seeded/INDEX.md from the seeds' meta.json files and the matrix files given on the
command line (tab-separated: seed, check, exit code, violations, first line)."""
import json, glob, os, sys, collections
by = collections.defaultdict(dict)
for f in sys.argv[1:]:
    for l in open(f):
        p = l.rstrip('\n').split('\t')
        if len(p) >= 4:
            by[p[0]][p[1]] = p[2]
rows = []
for d in sorted(glob.glob('/verif/seeded/*/')):
    name = os.path.basename(d.rstrip('/'))
    m = json.load(open(d + 'meta.json'))
    caught = sorted(k for k, v in by.get(name, {}).items() if v == '1')
    other = sorted(k + ':' + v for k, v in by.get(name, {}).items() if v not in ('0', '1'))
    rows.append((name, m.get('property'), (m.get('summary') or '').replace('\n', ' ')[:160], (m.get('needs_to_manifest') or '').replace('\n', ' ')[:140], caught, other, len(by.get(name, {}))))
with open('/verif/seeded/INDEX.md', 'w') as o:
    o.write('# Seeded changes\n\nOne directory per change: `patch.diff` (applies to /repo HEAD with `git apply`), the demonstration as delivered '
            '(`demo_test.go.txt` / `demo/*.txt`: rename and copy into the package named in `meta.json`), `meta.json`.\n'
            '"caught by" lists the quick checks that exit 1 with a VIOLATION line when the change is applied (from `tools/matrix.sh`; '
            'empty = not part of a matrix run, see DESIGN.md section 8 for the runs made by hand).\n\n')
    o.write('| change | targets | what it does | needs | caught by (quick) | other exits |\n|---|---|---|---|---|---|\n')
    for name, prop, summ, needs, caught, other, n in rows:
        o.write(f"| {name} | {prop} | {summ.replace('|','/')} | {needs.replace('|','/')} | {' '.join(caught) if n else '(not in matrix)'} | {' '.join(other)} |\n")
print(len(rows), 'seeds;', sum(1 for r in rows if r[6]), 'with matrix rows')

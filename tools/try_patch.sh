#!/bin/bash
# Developer tool: apply a seeded change to /repo, run the quick checks of the given
# properties (default: all), undo the change straight afterwards. Prints one line per check.
#   tools/try_patch.sh <patch.diff> [--tier T] [IDs...]
set -u
P=$(realpath "$1"); shift
TIER=quick
if [ "${1:-}" = "--tier" ]; then TIER=$2; shift 2; fi
IDS="$*"; [ -z "$IDS" ] && IDS="C01 C02 C03 C04 C05 C06 C07 C08 C09 C10 C11 C12 C13 C14 C15 C16"
cd /repo || exit 2
if [ -n "$(git status --porcelain)" ]; then echo "/repo not clean"; exit 2; fi
git apply "$P" || { echo "patch does not apply"; exit 2; }
trap 'cd /repo && git checkout -- . && git clean -fdq' EXIT
cd /verif
for id in $IDS; do
  out=$(./check $id --tier $TIER 2>&1); rc=$?
  nv=$(echo "$out" | grep -c '^VIOLATION')
  first=$(echo "$out" | grep -m1 '^  C' | cut -c1-220)
  inc=$(echo "$out" | grep -m1 '^INCONCLUSIVE' | cut -c1-160)
  echo "$id rc=$rc violations=$nv $first $inc"
done

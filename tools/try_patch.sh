#!/bin/bash
# Developer tool: run quick checks against a seeded change WITHOUT touching /repo or /verif:
# a scratch worktree of /repo's HEAD gets the patch, a scratch copy of /verif's working tree runs the checks.
#   tools/try_patch.sh <patch.diff> [--tier T] [IDs...]
set -u
P=$(realpath "$1"); shift
TIER=quick
if [ "${1:-}" = "--tier" ]; then TIER=$2; shift 2; fi
IDS="$*"; [ -z "$IDS" ] && IDS="C01 C02 C03 C04 C05 C06 C07 C08 C09 C10 C11 C12 C13 C14 C15 C16"
T=/tmp/tp-$$; mkdir -p $T
git -C /repo worktree add --detach $T/repo HEAD -q || exit 2
trap 'git -C /repo worktree remove --force '$T'/repo 2>/dev/null; rm -rf '$T EXIT
( cd $T/repo && git apply "$P" ) || { echo "patch does not apply"; exit 2; }
rsync -a --exclude runs --exclude .cache --exclude bin --exclude .git /verif/ $T/verif/
cd $T/verif
export VERIF_REPO=$T/repo VERIF_GOCACHE=/verif/.cache/go-build
for id in $IDS; do
  out=$(./check $id --tier $TIER ${TRY_JOBS:+--jobs $TRY_JOBS} 2>&1); rc=$?
  nv=$(echo "$out" | grep -c '^VIOLATION')
  first=$(echo "$out" | grep -m1 '^  C' | cut -c1-220)
  inc=$(echo "$out" | grep -m1 '^INCONCLUSIVE' | cut -c1-160)
  echo "$id rc=$rc violations=$nv $first $inc"
done

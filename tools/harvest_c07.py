#!/usr/bin/env python3
"""Developer tool (never run by a check): append boundary witnesses found by the last
C07 run (runs/C07/<tier>/jobs/*.out.json) to corpus/c07_boundary.jsonl, de-duplicated, keeping at
most N per boundary kind. Every corpus entry is re-classified by dilref at check time and
only counted if it still is a boundary case."""
import json, glob, sys, collections
cap = int(sys.argv[1]) if len(sys.argv) > 1 else 12
path = '/verif/corpus/c07_boundary.jsonl'
have = [json.loads(l) for l in open(path) if l.strip()]
seen = {(e['seed'], e['msg']) for e in have}
per = collections.Counter()
for e in have:
    for k in e['kinds'].split(','): per[k] += 1
for f in sorted(glob.glob('/verif/runs/C07/*/jobs/*.out.json')):
    for w in json.load(open(f)).get('sets', {}).get('boundary_witnesses', []):
        e = json.loads(w)
        if (e['seed'], e['msg']) in seen: continue
        ks = e['kinds'].split(',')
        if all(per[k] >= cap for k in ks): continue
        for k in ks: per[k] += 1
        seen.add((e['seed'], e['msg'])); have.append(e)
with open(path, 'w') as o:
    for e in have: o.write(json.dumps(e) + '\n')
print(len(have), dict(per))

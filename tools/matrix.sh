#!/bin/bash
# Developer tool: run every quick check against every seeded change and write a matrix.
# Works on a scratch copy of the repository (VERIF_REPO, default: a fresh worktree of /repo's HEAD under /tmp),
# never on /repo itself. Usage: tools/matrix.sh [out.tsv] [seed-dir-glob]
OUT=${1:-matrix.tsv}; shift; GLOBS=${*:-*}; NJ=${MATRIX_JOBS:-16}
HERE=$(cd "$(dirname "$0")/.." && pwd)
if [ -z "${VERIF_REPO:-}" ]; then
  if [ -n "${VP_RUN_REPO:-}" ]; then export VERIF_REPO=$VP_RUN_REPO; else
    export VERIF_REPO=/tmp/matrix-repo-$$; git -C /repo worktree add --detach $VERIF_REPO HEAD -q; MADE=1; fi
fi
cd $HERE; export VERIF_GOCACHE=${VERIF_GOCACHE:-/verif/.cache/go-build}
: > $OUT
for g in $GLOBS; do for d in /verif/seeded/$g; do
  [ -f $d/patch.diff ] || continue
  name=$(basename $d)
  ( cd $VERIF_REPO && git checkout -q -- . && git clean -fdq && git apply $d/patch.diff ) || { echo -e "$name\tPATCH-FAILED" >> $OUT; continue; }
  for id in C01 C02 C03 C04 C05 C06 C07 C08 C09 C10 C11 C12 C13 C14 C15 C16; do
    out=$(./check $id --tier quick --jobs $NJ 2>&1); rc=$?
    nv=$(echo "$out" | grep -c '^VIOLATION')
    first=$(echo "$out" | grep -m1 '^  C' | cut -c1-160 | tr '\t' ' ')
    echo -e "$name\t$id\t$rc\t$nv\t$first" >> $OUT
  done
  ( cd $VERIF_REPO && git checkout -q -- . && git clean -fdq )
done; done
[ -n "${MADE:-}" ] && git -C /repo worktree remove --force $VERIF_REPO
echo matrix done

#!/bin/bash
# Developer tool: confirm a seeded change delivered under /tmp/wtout/<ID>/<variant>:
#   compiles (with/without tag), passes the unedited suite, demo passes without and fails with the change.
# Uses the scratch worktree /tmp/wt/<ID>. Prints a one-line verdict.
ID=$1; V=$2; WTOUT=${WTOUT:-/tmp/wtout}; WT=${WT:-/tmp/wt}; D=$WTOUT/$ID/$V; W=$WT/$ID
export GOFLAGS=-mod=mod GOPROXY=off GOSUMDB=off GOTOOLCHAIN=local
cd $W || exit 2
git checkout -q -- . ; git clean -fdq
rundemo() {
  if [ -f $D/demo_test.go ]; then
    pkg=$(grep -m1 '^package ' $D/demo_test.go | awk '{print $2}' | sed 's/_test$//')
    case $pkg in xmss) dir=xmss;; dilithium) dir=dilithium;; misc) dir=misc;; dilithiumjs) dir=qrllib-js/dilithiumjs;; xmssjs) dir=qrllib-js/xmssjs;; *) dir=$pkg;; esac
    cp $D/demo_test.go $W/$dir/zz_seed_demo_test.go
    (cd $W && timeout 600 go test -vet=off -count=1 $2 ./$dir/ >$D/demo_$1.log 2>&1); rc=$?
    rm -f $W/$dir/zz_seed_demo_test.go
    return $rc
  elif [ -d $D/demo ]; then
    (cd $D/demo && timeout 600 go run . >$D/demo_$1.log 2>&1); return $?
  fi
  return 99
}
RACE=""; grep -q '"race"\|-race' $D/meta.json 2>/dev/null && RACE="-race"
rundemo clean $RACE; c=$?
git apply $D/patch.diff || { echo "$ID/$V patch-does-not-apply"; exit 1; }
b1=0; go build ./... >/dev/null 2>&1 || b1=1; go build -tags verif ./... >/dev/null 2>&1 || b1=1
t=$(go test -vet=off -count=1 ./... 2>&1 | grep -c '^ok')
f=$(go test -vet=off -count=1 ./... 2>&1 | grep -c '^FAIL\|^---')
rundemo patched $RACE; p=$?
git checkout -q -- . ; git clean -fdq
echo "$ID/$V build_fail=$b1 suite_ok_pkgs=$t suite_fail_lines=$f demo_clean_rc=$c demo_patched_rc=$p"

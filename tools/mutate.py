#!/usr/bin/env python3
"""Developer tool: seeded single-token mutants of the library, confronted with the quick checks.

For each mutant (one operator / constant changed on one line of a library source file):
  1. it is applied to a scratch worktree of /repo's HEAD (never to /repo itself);
  2. it must build with and without the tag and pass the repository's own test suite — otherwise it is
     dropped ("killed by the existing tests": not the kind of change the checks are for);
  3. the quick checks of the properties anchored in that file are run against it (tools/try_patch.sh, which
     works on scratch copies) until one of them reports a violation.
Output: one line per mutant in the TSV given as first argument: id, file:line, operator, before -> after,
verdict (build-fail | tests-fail | caught:<check> | SURVIVED), plus the diff of survivors under <out>.survivors/.

  tools/mutate.py out.tsv <seed> <count> [file-substring]
"""
import os, random, re, subprocess, sys, json

ENVV = dict(os.environ, GOFLAGS="-mod=mod", GOPROXY="off", GOSUMDB="off", GOTOOLCHAIN="local")
FILES = {
    "xmss/xmss_fast.go": ["C01", "C06", "C08", "C02"],
    "xmss/xmss.go": ["C01", "C04", "C02", "C06", "C11", "C08", "C14", "C09"],
    "xmss/bds_state.go": ["C01", "C08"],
    "xmss/hash.go": ["C06", "C04"],
    "xmss/params.go": ["C06", "C04", "C14"],
    "xmss/descriptor.go": ["C11", "C09", "C04"],
    "dilithium/sign.go": ["C07", "C03", "C05", "C14"],
    "dilithium/packing.go": ["C13", "C07", "C05", "C14"],
    "dilithium/poly.go": ["C12", "C07", "C13", "C05"],
    "dilithium/polyvec.go": ["C07", "C12", "C05"],
    "dilithium/ntt.go": ["C12", "C07"],
    "dilithium/reduce.go": ["C12", "C07"],
    "dilithium/rounding.go": ["C12", "C07", "C05"],
    "dilithium/dilithium.go": ["C03", "C09", "C11", "C07", "C14"],
    "misc/helper.go": ["C10", "C09", "C14", "C06"],
    "qrllib-js/xmssjs/xmss.go": ["C16"],
    "qrllib-js/dilithiumjs/dilithium.go": ["C16"],
}
OPS = [
    (r" < ", " <= "), (r" <= ", " < "), (r" > ", " >= "), (r" >= ", " > "), (r" == ", " != "), (r" != ", " == "),
    (r" \+ ", " - "), (r" - ", " + "), (r" << ", " >> "), (r" >> ", " << "), (r" & ", " | "), (r" \| ", " & "),
    (r" && ", " || "), (r" \|\| ", " && "), (r"\+\+", "--"), (r" \+= ", " -= "), (r" -= ", " += "), (r" \^ ", " & "),
]
NUM = re.compile(r"(?<![\w.])(\d+)(?![\w.])")


def candidates(root):
    out = []
    for f in FILES:
        lines = open(os.path.join(root, f)).read().split("\n")
        infunc = False
        for n, l in enumerate(lines):
            s = l.strip()
            if s.startswith("func "):
                infunc = True
            if not infunc or s.startswith("//") or not s or "panic(" in s or "Errorf" in s or "errors.New" in s or "verifLeaf" in s or "verifSignAttempt" in s:
                continue
            code = l.split("//")[0]
            for pat, rep in OPS:
                for m in re.finditer(pat, code):
                    out.append((f, n, m.start(), m.end(), rep, pat.replace("\\", "")))
            for m in NUM.finditer(code):
                v = int(m.group(1))
                if v > 4096:
                    continue
                out.append((f, n, m.start(), m.end(), str(v + 1), "const+1"))
                if v > 0:
                    out.append((f, n, m.start(), m.end(), str(v - 1), "const-1"))
    return out


def sh(cmd, cwd=None, timeout=3600):
    try:
        p = subprocess.run(cmd, shell=True, cwd=cwd, env=ENVV, stdout=subprocess.PIPE, stderr=subprocess.STDOUT, text=True, timeout=timeout)
        return p.returncode, p.stdout
    except subprocess.TimeoutExpired:
        return 124, "timeout"


def main():
    out, seed, count = sys.argv[1], int(sys.argv[2]), int(sys.argv[3])
    only = sys.argv[4] if len(sys.argv) > 4 else ""
    wt = f"/tmp/mut-wt-{os.getpid()}"
    sh(f"git -C /repo worktree add --detach {wt} HEAD -q")
    surv = out + ".survivors"
    os.makedirs(surv, exist_ok=True)
    try:
        cands = [c for c in candidates(wt) if only in c[0]]
        rng = random.Random(seed)
        rng.shuffle(cands)
        done = 0
        with open(out, "a") as o:
            for (f, n, a, b, rep, op) in cands:
                if done >= count:
                    break
                path = os.path.join(wt, f)
                lines = open(path).read().split("\n")
                before = lines[n]
                lines[n] = before[:a] + rep + before[b:]
                open(path, "w").write("\n".join(lines))
                mid = f"m{seed}-{done}"
                desc = f"{f}:{n+1}\t{op}\t{before.strip()[:90]} -> {lines[n].strip()[:90]}"
                rc, _ = sh("go build ./... && go build -tags verif ./...", cwd=wt)
                verdict = None
                if rc != 0:
                    verdict = "build-fail"
                else:
                    rc, t = sh("go test -vet=off -count=1 ./...", cwd=wt, timeout=2400)
                    if rc != 0:
                        verdict = "tests-fail"
                if verdict is None:
                    _, diff = sh("git diff", cwd=wt)
                    pf = os.path.join(surv, mid + ".diff")
                    open(pf, "w").write(diff)
                    verdict = "SURVIVED"
                    for chk in FILES[f]:
                        rc, t = sh(f"TRY_JOBS={os.environ.get('TRY_JOBS','6')} /verif/tools/try_patch.sh {pf} {chk}", timeout=5400)
                        line = [x for x in t.split("\n") if x.startswith(chk + " rc=")]
                        if line and " rc=1 " in line[0]:
                            verdict = "caught:" + chk + "\t" + line[0][:200]
                            break
                        if line and " rc=0 " not in line[0]:
                            verdict = "OTHER:" + chk + "\t" + line[0][:200]
                            break
                    if not verdict.startswith("SURVIVED"):
                        os.remove(pf)
                o.write(f"{mid}\t{desc}\t{verdict}\n")
                o.flush()
                sh("git checkout -q -- .", cwd=wt)
                if verdict != "build-fail":
                    done += 1
    finally:
        sh(f"git -C /repo worktree remove --force {wt}")


if __name__ == "__main__":
    main()

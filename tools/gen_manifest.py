#!/usr/bin/env python3
"""Developer tool: regenerate /verif/MANIFEST.json from meta.json and the table below."""
import json, subprocess
ROOT = '/verif'
meta = json.load(open(f'{ROOT}/meta.json'))
T = {
 "C01": ("whole-life sign/verify histories (real hashes) + authentication-path invariant at every index under a leaf seam, against an independent full Merkle tree", "§4 C01",
         "Held on the executions listed in the evidence: every index of every configuration listed as exhaustive, all jump pairs for small heights, sampled jumps for tall ones. Exploration is the right level: the traversal control flow depends only on (h, index history), so enumerating indices of the heights that can be executed decides those heights; heights 26-30 are out of reach of any run."),
 "C02": ("recorded Sign/SetIndex event logs checked offline against the counter automaton, with complete-state digests around refusals", "§4 C02",
         "Held on the recorded histories (hostile arguments, always past exhaustion). The property is a safety property over histories of one object; a monitor over recorded events is exactly what can refute it."),
 "C03": ("round-trip equations of the API over seeds x message lengths, exits classified by the reference signer", "§4 C03",
         "Held on the (seed,message) pairs explored; the rejection-loop paths actually taken are reported from the reference's classification."),
 "C04": ("differential monitor: xmss.Verify vs an independent specification-level verifier over mutation classes and hostile descriptors", "§4 C04",
         "Held on the triples presented; complete for the enumerated finite parts (all public-key bits, all descriptor nibble combinations for the chosen triples)."),
 "C05": ("differential monitor: dilithium.Verify/Open vs the specification-level verifier, with isolating constructions made by a knob signer", "§4 C05",
         "Held on the triples presented. Each isolating construction (R1-R4) is confirmed at run time to be accepted by the reference with exactly one condition removed, so a deleted verifier-side check is observable."),
 "C06": ("byte-for-byte comparison of public keys and signatures with a full-tree reference implementation over whole key lives", "§4 C06",
         "Held on the configurations explored (all indices for the listed heights). Known answers exist only for SHAKE_128; for the other hash functions the reference is trusted by construction."),
 "C07": ("byte-for-byte comparison with a spec-level Dilithium5 (schoolbook arithmetic), boundary cases recognised by the reference's margins, samplers fed directly", "§4 C07",
         "Held on the pairs explored, including the boundary witnesses counted in the evidence; unreachable paths (c*t0 rejection, sampler refill) stay unobserved."),
 "C08": ("enumeration of every crash index: complete-state equality and identical futures between the original and keys rebuilt through every constructor and way of reaching the index", "§4 C08",
         "Fault enumeration: the fault 'object discarded at index i' is enumerated completely for the listed heights (real hashes and leaf seam), sampled for taller trees."),
 "C09": ("equality monitor between a key and its reconstructions through every exported secret, every (height, hash) under the leaf seam", "§4 C09",
         "Held on the keys explored: every supported (height<=24, hash) combination is exercised on a real object; heights 26-30 only through the descriptor/mnemonic functions."),
 "C10": ("complete table sweep, position x value sweeps and malformed phrases judged by a strict bit-level reference codec", "§4 C10",
         "Held on what was swept; the word table and (in thorough) every 12-bit value at every position and every 3-byte block are covered completely."),
 "C11": ("reference-model monitor for address derivation/validation; complete sweep of descriptor field values", "§4 C11",
         "Held on the inputs explored; the descriptor round trip is complete (65536 combinations)."),
 "C12": ("dense / complete operand sweeps of the arithmetic aliases against int64 definitions and the schoolbook product", "§4 C12",
         "Complete for every scalar function on [0,q) and (thorough) reduce32 on its whole int32 domain; sampled for montgomeryReduce (2^55 operands) and polynomial products."),
 "C13": ("Latin-square sweeps of every packer (every value at every position), hint vectors of every weight, decoder canonicity on edited signature strings", "§4 C13",
         "Complete over (value, position) pairs for all five packers; canonicity held on the signature strings presented."),
 "C14": ("outcome classifier (value / explicit refusal / runtime fault / death / hang) and buffer comparison over hostile inputs, plain and -race/checkptr builds, child process per batch", "§4 C14",
         "Held on the calls made; Go's own bounds/nil checks are the memory-safety oracle and surface as runtime.Error panics or fatal errors, which the classifier and the driver read."),
 "C15": ("Go race detector over cold-start barrier scenarios + result-equality monitor against a sequential reference process", "§4 C15",
         "Held on the interleavings observed (counted in the evidence). A race in code no scenario calls, or one that needs an interleaving not produced, is invisible."),
 "C16": ("differential monitor: wrapper outcome vs core outcome on the decoded bytes over prefix/case renderings and non-hex strings", "§4 C16",
         "Held on the calls made; wrong-length hex input is outside the property."),
}
hooks = subprocess.run(['git','-C','/repo','log','--format=%H %s'],capture_output=True,text=True).stdout.splitlines()
hook_commits = [l.split()[0] for l in hooks if ' verif hooks:' in ' '+l]
checks = []
for pid in sorted(T):
    tech, ref, text = T[pid]
    m = meta[pid]
    checks.append({
        "property_id": pid,
        "quick_cmd": f"./check {pid} --tier quick",
        "thorough_cmd": f"./check {pid} --tier thorough",
        "evidence_file": f"/verif/evidence/{pid}.json",
        "replay_cmd_template": f"./check {pid} --replay {{path}}",
        "engine": "mon",
        "level_claimed": {"category": m["level"], "text": text, "design_ref": "DESIGN.md " + ref},
        "level_note": "; ".join(m["assumptions"]),
        "technique": "runtime monitoring: " + tech,
    })
man = {
 "version": 1,
 "setup_cmd": "./check --setup",
 "hooks": {
  "guard": "verif",
  "enable": "go build -tags verif (the driver builds /verif/mon, which resolves github.com/theQRL/go-qrllib through `replace => /repo`, with and without -race)",
  "baseline_off_cmd": "cd /repo && GOFLAGS=-mod=mod GOPROXY=off GOSUMDB=off GOTOOLCHAIN=local go test -json -vet=off -count=1 -timeout 25m ./...",
  "source_commits": hook_commits,
  "add_only": True
 },
 "engines": [{"name": "mon", "path": "/verif/mon", "serves_properties": sorted(T), "kind_free_text": "Go monitor binary (reference models xmssref/dilref/mnemref/addrref, per-property workload generators and oracles) driven by /verif/check (python3, stdlib): rebuild from /repo's working tree, plan, one child process per job (16 at a time), merge observations, evidence, known findings, replay"}],
 "checks": checks,
 "not_applicable": [],
 "notes": "Technique family: runtime monitoring and sanitizers. Exit 0 = held on everything explored; exit 1 + VIOLATION line = refuted on a concrete execution (replay file attached); exit 2 + INCONCLUSIVE line = build/self-test/watchdog problem (no verdict). KNOWN_FINDINGS.txt lists the two genuine defects found and fixed in /repo (fix: commits)."
}
json.dump(man, open(f'{ROOT}/MANIFEST.json','w'), indent=1)
print("wrote MANIFEST.json with", len(checks), "checks; hook commits:", hook_commits)

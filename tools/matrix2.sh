#!/bin/bash
# Developer tool: like matrix.sh, but (a) only the quick checks whose property can be affected by the packages a
# change touches are run (misc/ and common/ are imported by everything -> all checks), (b) (change, check) pairs
# already present in the files named in MATRIX_SKIP are skipped, (c) changes are named explicitly.
#   MATRIX_SKIP="a.tsv b.tsv" tools/matrix2.sh out.tsv <seed-name>...
OUT=$1; shift; NJ=${MATRIX_JOBS:-16}
HERE=$(cd "$(dirname "$0")/.." && pwd)
if [ -z "${VERIF_REPO:-}" ]; then
  if [ -n "${VP_RUN_REPO:-}" ]; then export VERIF_REPO=$VP_RUN_REPO; else
    export VERIF_REPO=/tmp/matrix-repo-$$; git -C /repo worktree add --detach $VERIF_REPO HEAD -q; MADE=1; fi
fi
cd $HERE; export VERIF_GOCACHE=${VERIF_GOCACHE:-/verif/.cache/go-build}
: > $OUT
for name in "$@"; do
  d=/verif/seeded/$name
  [ -f $d/patch.diff ] || continue
  files=$(grep '^+++ b/' $d/patch.diff | sed 's/^+++ b\///')
  ids=""
  case "$files" in *misc/*|*common/*) ids="C01 C02 C03 C04 C05 C06 C07 C08 C09 C10 C11 C12 C13 C14 C15 C16";; esac
  if [ -z "$ids" ]; then
    case "$files" in *xmss/*) ids="$ids C01 C02 C04 C06 C08 C09 C11 C14 C15 C16";; esac
    case "$files" in *dilithium/*) ids="$ids C03 C05 C07 C09 C11 C12 C13 C14 C15 C16";; esac
    ids=$(echo $ids | tr ' ' '\n' | sort -u | tr '\n' ' ')
  fi
  ( cd $VERIF_REPO && git checkout -q -- . && git clean -fdq && git apply $d/patch.diff ) || { echo -e "$name\tPATCH-FAILED" >> $OUT; continue; }
  for id in $ids; do
    if [ -n "${MATRIX_SKIP:-}" ] && cat $MATRIX_SKIP 2>/dev/null | grep -q "^$name	$id	"; then continue; fi
    out=$(./check $id --tier quick --jobs $NJ 2>&1); rc=$?
    nv=$(echo "$out" | grep -c '^VIOLATION')
    first=$(echo "$out" | grep -m1 '^  C' | cut -c1-160 | tr '\t' ' ')
    echo -e "$name\t$id\t$rc\t$nv\t$first" >> $OUT
  done
  ( cd $VERIF_REPO && git checkout -q -- . && git clean -fdq )
done
[ -n "${MADE:-}" ] && git -C /repo worktree remove --force $VERIF_REPO
echo matrix done

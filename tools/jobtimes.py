#!/usr/bin/env python3
# dev helper: per-job wall times of the last run of a property (from log mtimes)
import sys,os,json,glob
pid=sys.argv[1]
import os
d=f'/verif/runs/{pid}/'+os.environ.get('TIER','quick')+'/jobs'
rows=[]
for jf in glob.glob(d+'/*.json'):
    if jf.endswith('.out.json'): continue
    n=os.path.basename(jf)[:-5]
    lf=f'{d}/{n}.log'; of=f'{d}/{n}.out.json'
    if os.path.exists(of):
        rows.append((os.path.getmtime(of)-os.path.getmtime(jf), json.load(open(jf))['id']))
rows.sort(reverse=True)
for t,i in rows[:int(sys.argv[2]) if len(sys.argv)>2 else 15]: print(f'{t:8.1f}  {i}')
